import warnings, traceback
warnings.filterwarnings("ignore")
import numpy as np, random
from ixai.explainer import IncrementalSage, IncrementalPFI, BatchSage, IntervalSage
from ixai.utils.tracker import SlidingWindowTracker, MultiValueTracker, WelfordTracker, ExponentialSmoothingTracker

def model(x):
    if isinstance(x, dict):
        return {'output': 2*x['a'] + x['b']}
    return [model(xi) for xi in x]
def loss(y_true, y_pred):
    return (y_true - y_pred['output'])**2

def t(name, f):
    try:
        r = f(); print("OK  ", name, r)
    except Exception as e:
        print("FAIL", name, type(e).__name__, e)

t("sage default ctor", lambda: IncrementalSage(model, loss, ['a','b','c']))
t("sage static default ctor", lambda: IncrementalSage(model, loss, ['a','b','c'], dynamic_setting=False))
t("pfi default ctor", lambda: IncrementalPFI(model, loss, ['a','b','c']))
t("batch default ctor", lambda: BatchSage(model, ['a','b','c'], loss))
t("interval default ctor", lambda: IntervalSage(model, ['a','b','c'], loss))
t("sliding", lambda: SlidingWindowTracker(3))

def run_batch():
    e = BatchSage(model, ['a','b','c'], loss)
    for i in range(5):
        e.update_storage({'a': i, 'b': i*i, 'c': 1}, i)
    return e.explain_one({'a': 1, 'b': 2, 'c': 3}, 3, verbose=False)
t("batch explain", run_batch)
def run_interval():
    e = IntervalSage(model, ['a','b','c'], loss, interval_length=2, storage_length=3)
    out=[]
    for i in range(5):
        out.append(e.explain_one({'a': i, 'b': i*i, 'c': 1}, i, verbose=False))
    return out
t("interval explain", run_interval)
def run_sage(names, **kw):
    def m(x): return {'output': sum(float(v) for v in x.values())}
    e = IncrementalSage(m, loss, names, smoothing_alpha=0.1, **kw)
    for i in range(5):
        r = e.explain_one({n: i+j for j, n in enumerate(names)}, i)
    return r, [type(k) for k in r]
t("sage str", lambda: run_sage(['a','b']))
t("sage int", lambda: run_sage([0,1,2]))
t("sage float", lambda: run_sage([0.5,1.5]))
t("sage mixed", lambda: run_sage(['a',1,2.5]))
def run_pfi(names):
    def m(x): return {'output': sum(float(v) for v in x.values())}
    e = IncrementalPFI(m, loss, names, smoothing_alpha=0.1)
    for i in range(5):
        r = e.explain_one({n: i+j for j, n in enumerate(names)}, i)
    return r, [type(v) for v in r.values()]
t("pfi mixed", lambda: run_pfi(['a',1,2.5]))
