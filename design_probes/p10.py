import warnings, random, copy, hashlib
warnings.filterwarnings("ignore")
from qnum import Q
import numpy as np
from ixai.explainer import IncrementalSage, IncrementalPFI, BatchSage, IntervalSage
from ixai.storage import *
from ixai.imputer import MarginalImputer, DefaultImputer
def h(*a):
    return int(hashlib.sha256(repr(a).encode()).hexdigest()[:8],16)
def key(x): return sorted(((repr(k), repr(v)) for k,v in x.items()))
def model(x):
    if not isinstance(x, dict): return [model(xi) for xi in x]
    return {'output': Q(h('m', key(x)) % 1000, 7)}
def mmodel(x):
    if not isinstance(x, dict): return [mmodel(xi) for xi in x]
    k = 2 + h('k', key(x)) % 3
    return {l: Q(h('m', l, key(x)) % 1000 + 1, 7) for l in range(k)}
def loss(y_true, y_prediction=None, **kw):
    return Q(h('l', y_true, key(y_prediction)) % 2001 - 1000, 13)
names=['a','b','c']
for dyn, alpha in [(True, Q(1,3)), (False, None), (True, 1), (True, 0.1)]:
  for mdl in (model, mmodel):
    for strat in ('joint','product'):
      for lb in (False, True):
        random.seed(5); np.random.seed(5)
        st = GeometricReservoirStorage(size=4, store_targets=False) if dyn else UniformReservoirStorage(size=4)
        imp = MarginalImputer(mdl, strat, st)
        e = IncrementalSage(mdl, loss, names, smoothing_alpha=alpha if alpha else Q(1,1000), storage=st, imputer=imp, n_inner_samples=3, dynamic_setting=dyn, loss_bigger_is_better=lb)
        p = IncrementalPFI(mdl, loss, names, smoothing_alpha=alpha if alpha else Q(1,1000), storage=st, imputer=imp, n_inner_samples=3, dynamic_setting=dyn)
        ok=True
        for t in range(30):
            x = {n: t*10+j for j,n in enumerate(names)}
            r = e.explain_one(x, t)
            pr = p.explain_one(x, t, update_storage=False)
            if t>=1:
                s = sum(r.values())
                if not (s == e.explained_loss): ok=False; print("MISMATCH", t, s, e.explained_loss)
        print(dyn, alpha, mdl.__name__, strat, lb, "C01 exact ok:", ok, type(s).__name__, type(e.explained_loss).__name__, "pfi types", {type(v).__name__ for v in pr.values()}, "var types", {type(v).__name__ for v in e.variances.values()})
