import warnings, random, copy, hashlib, sys
warnings.filterwarnings("ignore")
import numpy as np
from ixai.storage import TreeStorage
from ixai.imputer import TreeImputer
def run(seed_tree, preamble=False):
    if preamble:
        from ixai.storage import UniformReservoirStorage
        for _ in range(3): UniformReservoirStorage(size=3)
    random.seed(11); np.random.seed(11)
    st = TreeStorage(cat_feature_names=['c1'], num_feature_names=['n1','n2'], max_depth=3, leaf_reservoir_length=4, grace_period=15, seed=seed_tree)
    rnd = random.Random(99)
    xs=[]
    for i in range(600):
        c1 = rnd.choice([0,1,2]); x={'c1': c1, 'n1': rnd.gauss(c1,1), 'n2': rnd.gauss(0,1)}
        st.update(x); xs.append(x)
    seen=[]
    imp = TreeImputer(lambda x: (seen.append(dict(x)) or {'output': 0.}), st, use_storage=False)
    for x in xs[:50]: imp.impute(['c1','n1'], x, 2)
    sig = hashlib.sha256(repr((sorted((f, sorted(k for k in d)) for f,d in st.data_reservoirs.items()), seen)).encode()).hexdigest()[:12]
    return sig
print("seed=7  :", run(7), run(7), run(7, True))
print("seed=None:", run(None), run(None))
