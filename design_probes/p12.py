import warnings, random, copy, hashlib, sys, time
t0=time.time()
warnings.filterwarnings("ignore")
import numpy as np
from qnum import Q
from ixai.explainer import BatchSage, IntervalSage
print("import s", time.time()-t0)
def h(*a): return int(hashlib.sha256(repr(a).encode()).hexdigest()[:8],16)
def key(x): return sorted(((repr(k), repr(v)) for k,v in x.items()))
calls=[]
def model(x):
    if not isinstance(x, dict):
        calls.append(('batch', len(x), type(x).__name__)); return [model1(xi) for xi in x]
    calls.append(('one', dict(x))); return model1(x)
def model1(x): return {'output': Q(h('m', key(x)) % 1000, 7)}
def loss(*a, **kw):
    vals = list(a) + [kw[k] for k in kw]
    return Q(h('l', vals[0], key(vals[1])) % 2001 - 1000, 13)
names=['a','b','c']
random.seed(1); np.random.seed(1)
data=[({n: t*10+j for j,n in enumerate(names)}, t) for t in range(7)]
for orig in (False, True):
    e = BatchSage(model, names, loss, n_inner_samples=2)
    for x,y in data[:-1]: e.update_storage(x,y)
    calls.clear()
    r = e.explain_one(*data[-1], original_sage=orig, verbose=False)
    preds=[model1(x) for x,_ in data]
    mp = {'output': sum(p['output'] for p in preds)/len(preds)}
    exp = sum(loss(y, mp) - loss(y, model1(x)) for x,y in data)/len(data)
    print("orig", orig, "sum", sum(r.values()), "expected", exp, sum(r.values())==exp, "ncalls", len(calls), calls[0])
    if orig:
        # background rows per position
        pos=0; import collections
        rows=collections.defaultdict(set)
        ones=[c for c in calls if c[0]=='one']
        per = len(names)*2
        for i,c in enumerate(ones):
            n = i//per
            xin=c[1]
            for f,v in xin.items():
                if v != data[n][0][f]: rows[n].add(v//10)
        print({n: sorted(s) for n,s in rows.items()})
e = IntervalSage(model, names, loss, n_inner_samples=1, interval_length=3, storage_length=2)
outs=[]
for i,(x,y) in enumerate(data):
    calls.clear()
    r = e.explain_one(x,y, verbose=False, force_explain=(i==4))
    outs.append((i+1, len(calls), calls[0] if calls else None, dict(r)))
for o in outs: print(o)
