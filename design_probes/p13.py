import warnings, random, sys, time
warnings.filterwarnings("ignore")
import numpy as np
# (1) scripted RNG
class Scripted(random.Random):
    def __init__(self, script):
        super().__init__(0); self.script=list(script); self.pos=0; self.arity=[]
    def _next(self, arity):
        if self.pos < len(self.script): c = self.script[self.pos]
        else: c = 0; self.script.append(0)
        self.arity.append(arity); self.pos += 1
        return c
    PAL=[0.0, 1e-12, 0.25, 0.5, 0.75, 1-2**-53]
    def random(self): return self.PAL[self._next(('f', len(self.PAL)))]
    def _randbelow(self, n): return self._next(('i', n))
    def getrandbits(self, k): return self._next(('i', 2**k))
import contextlib
@contextlib.contextmanager
def scripted(script):
    s = Scripted(script); saved={}
    for name in random.__all__:
        obj = getattr(random, name)
        if getattr(obj, '__self__', None) is random._inst:
            saved[name]=obj; setattr(random, name, getattr(s, name))
    try: yield s
    finally:
        for k,v in saved.items(): setattr(random, k, v)
from ixai.storage import GeometricReservoirStorage, UniformReservoirStorage
def explore(make, n):
    stack=[[]]; paths=0; outcomes=set()
    while stack:
        script = stack.pop()
        with scripted(script) as s:
            st = make()
            for i in range(n): st.update({'t': i}, i)
            out = tuple(x['t'] for x in st.get_data()[0])
        paths += 1; outcomes.add(out)
        # expand: for positions beyond given script length, branch alternatives
        L = len(script)
        for pos in range(len(s.script)-1, L-1, -1):
            kind, ar = s.arity[pos]
            for alt in range(1, ar):
                stack.append(s.script[:pos] + [alt])
    return paths, len(outcomes)
t=time.time(); print("geo k=2 n=5", explore(lambda: GeometricReservoirStorage(size=2, constant_probability=0.5, store_targets=True), 5), time.time()-t)
t=time.time(); print("uni k=2 n=4", explore(lambda: UniformReservoirStorage(size=2, store_targets=True), 4), time.time()-t)
# (2) sys.monitoring coverage
import ixai.utils.tracker.welford as W
mon = sys.monitoring; TOOL=3; mon.use_tool_id(TOOL, "vf")
hits=set()
def line_cb(code, line): hits.add((code.co_filename, line)); return mon.DISABLE
mon.register_callback(TOOL, mon.events.LINE, line_cb)
for name in ('update',):
    mon.set_local_events(TOOL, W.WelfordTracker.update.__code__, mon.events.LINE)
w=W.WelfordTracker()
t=time.time()
for i in range(200000): w.update(i)
print("cov", sorted(l for f,l in hits), time.time()-t)
# (3) np.seterrcall
ev=[]
np.seterrcall(lambda kind, flag: ev.append(kind)); np.seterr(all='call')
x = np.float64(1.0)/np.float64(0.0); y = np.float64(0.0)/np.float64(0.0)
print(ev)
