import warnings, random
warnings.filterwarnings("ignore")
import numpy as np
from ixai.explainer import IncrementalSage, IncrementalPFI
from ixai.storage import *
from ixai.imputer import *
def model(x): return {'output': 2*x['a'] + x['b']*x['c']}
def loss(y, p): return (y - p['output'])**2
names=['a','b','c']
random.seed(0); np.random.seed(0)
for mk in [lambda: TreeStorage(cat_feature_names=['a'], num_feature_names=['b','c'], max_depth=3, leaf_reservoir_length=5, grace_period=10, seed=1),
           lambda: IntervalStorage(size=3), lambda: SequenceStorage(), lambda: BatchStorage(), lambda: UniformReservoirStorage(size=2), lambda: GeometricReservoirStorage(size=2, constant_probability=1.0)]:
    st = mk()
    imps = [TreeImputer(model, st, use_storage=u, direct_predict_numeric=dp) for u in (0,1) for dp in (0,1)] if isinstance(st, TreeStorage) else [MarginalImputer(model, s, st) for s in ('joint','product')] + [DefaultImputer(model, {'a':0,'b':0,'c':0})]
    for imp in imps:
        for cls in (IncrementalSage, IncrementalPFI):
            st = mk(); imp.storage_object = st
            e = cls(model, loss, names, smoothing_alpha=0.2, storage=st, imputer=imp, n_inner_samples=2)
            try:
                for t in range(60):
                    x={'a': float(t%3), 'b': random.gauss(0,1), 'c': random.gauss(1,1)}
                    r = e.explain_one(x, random.random())
                extra = (abs(sum(r.values()) - e.explained_loss) if cls is IncrementalSage else '')
                print(type(st).__name__, type(imp).__name__, cls.__name__, "ok", extra)
            except Exception as ex:
                print(type(st).__name__, type(imp).__name__, cls.__name__, "FAIL", type(ex).__name__, ex)
