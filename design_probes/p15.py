import warnings, random
warnings.filterwarnings("ignore")
import numpy as np
np.NaN = np.nan  # emulate a supported NumPy to see the second C11 defect
from ixai.utils.tracker import SlidingWindowTracker
t = SlidingWindowTracker(3); vals=[]
for i in range(1, 11):
    t.update(float(i)); vals.append(float(i))
    exp = np.mean(vals[-3:])
    print(i, sorted(t.sliding_window.tolist()), "mean", t.mean, "expected", exp, "OK" if abs(t.mean-exp)<1e-12 else "WRONG")
from ixai.explainer import IncrementalPFI
from ixai.storage import BatchStorage
class BoomStorage(BatchStorage):
    boom=False
    def update(self, x, y=None):
        if self.boom: raise RuntimeError("storage down")
        super().update(x, y)
st = BoomStorage()
e = IncrementalPFI(lambda x: {'output': x['a']+x['b']}, lambda y,p: (y-p['output'])**2, ['a','b'], storage=st, smoothing_alpha=0.5)
for i in range(3): e.explain_one({'a': i, 'b': 2*i+1}, i)
before = dict(e.importance_values); st.boom=True
try: e.explain_one({'a': 9, 'b': 1}, 3)
except RuntimeError as ex: print("raised", ex)
print("PFI estimates unchanged after storage fault:", before == dict(e.importance_values), before, dict(e.importance_values))
