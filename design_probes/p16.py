import warnings, random, math, sys
warnings.filterwarnings("ignore")
from fractions import Fraction as F
import numpy as np
from ixai.utils.tracker import WelfordTracker, ExponentialSmoothingTracker
eps = sys.float_info.epsilon
def exact(vals):
    n=len(vals); fs=[F(v) for v in vals]; s=sum(fs); m=s/n; var=sum((f-m)**2 for f in fs)/n
    return m, var
rnd = random.Random(4)
worst = {'mean':0,'var':0,'es':0}
def streams():
    for n in (100, 1000, 20000):
        for off in (0.0, 1e3, 1e6, 1e9):
            for scale in (1e-8, 1.0, 1e8):
                base=[rnd.gauss(0,1)*scale for _ in range(n)]
                for order in ('rand','sorted','alt','jump'):
                    v=[off*scale + b for b in base]
                    if order=='sorted': v.sort()
                    elif order=='alt':
                        v.sort(); v=[v[i//2] if i%2==0 else v[-1-i//2] for i in range(n)]
                    elif order=='jump': v=[off*scale]*(n//2)+[off*scale+scale*1e3]*(n-n//2)
                    yield n, off, scale, order, v
for n, off, scale, order, v in streams():
    w=WelfordTracker()
    for x in v: w.update(x)
    m, var = exact(v); V=max(abs(x) for x in v)
    em = abs(F(w.mean)-m); bm = F(2*n*eps*V + 8*eps*V)
    r = float(em/bm); worst['mean']=max(worst['mean'], r)
    if var>0:
        kappa = math.sqrt(1+float(m*m/var)); ev = abs(F(w.var)-var)/var; bv = 4*n*eps*kappa+16*eps
        r2 = float(ev)/bv; worst['var']=max(worst['var'], r2)
        if r2>0.05: print("var ratio", r2, n, off, scale, order, kappa)
    for a in (0.001, 0.1, 1.0):
        if n>1000: continue
        t=ExponentialSmoothingTracker(a)
        for x in v: t.update(x)
        ex = sum(F(a)*(1-F(a))**(n-1-i)*F(x) for i,x in enumerate(v))
        r3 = float(abs(F(t.get())-ex))/(8*eps*V/a); worst['es']=max(worst['es'], r3)
print(worst)
# textbook comparison
v=[1e9+rnd.gauss(0,1) for _ in range(10000)]
m,var=exact(v); tb = sum(x*x for x in v)/len(v) - (sum(v)/len(v))**2
print("textbook rel err", abs(tb-float(var))/float(var), "bound", 4*len(v)*eps*math.sqrt(1+float(m*m/var)))
