import warnings, random
warnings.filterwarnings("ignore")
import numpy as np
from ixai.storage import TreeStorage
from ixai.storage.tree_storage import get_all_tree_paths
random.seed(3); np.random.seed(3)
rnd = random.Random(5)
def gen(i):
    drift = i>1500
    c1 = rnd.choice([0,1,2]); c2 = rnd.choice([0,1])
    n1 = rnd.gauss(0,1) + (3 if c1==0 else 0) + (4 if drift and c2==1 else 0); n2 = rnd.gauss(0,1)*(1+c2) + (5 if (drift and c1==1) else 0)
    return {'c1': c1, 'c2': c2, 'n1': n1, 'n2': n2}
st = TreeStorage(cat_feature_names=['c1','c2'], num_feature_names=['n1','n2'], max_depth=4, leaf_reservoir_length=5, grace_period=20, seed=7)
for i in range(2500): st.update(gen(i))
tree, kind = st('n1')
root = tree._root
print(type(root).__mro__[:4])
print([a for a in dir(root) if not a.startswith('__')])
def leaves_with_path(node, path=()):
    if hasattr(node, 'children'):
        for b, ch in enumerate(node.children):
            yield from leaves_with_path(ch, path + ((node, b),))
    else:
        yield node, path
for leaf, path in list(leaves_with_path(root))[:3]:
    print("LEAF", type(leaf).__name__, [(type(n).__name__, getattr(n,'feature',None), getattr(n,'threshold',None), getattr(n,'value',None), b) for n,b in path])
# witness synthesis
def witness(path, feats, catvals):
    lo = {f: -float('inf') for f in feats}; hi = {f: float('inf') for f in feats}
    eq = {}; ne = {f: set() for f in feats}
    for node, b in path:
        f = node.feature
        name = type(node).__name__
        if 'Num' in name:
            if b == 0: hi[f] = min(hi[f], node.threshold)   # x <= thr
            else: lo[f] = max(lo[f], node.threshold)        # x > thr
        else:  # nominal binary
            if b == 0: eq[f] = node.value
            else: ne[f].add(node.value)
    x = {}
    for f in feats:
        if f in eq:
            if eq[f] in ne[f] or not (lo[f] < eq[f] <= hi[f]): return None
            x[f] = eq[f]
        else:
            if lo[f] >= hi[f]: return None
            if hi[f] == float('inf') and lo[f] == -float('inf'): c = 0.123456
            elif hi[f] == float('inf'): c = lo[f] + 1.0
            elif lo[f] == -float('inf'): c = hi[f]   # <= thr
            else: c = hi[f]
            k = 0
            while c in ne[f]: c = (lo[f] + c)/2 if lo[f] > -float('inf') else c - 1.0
            x[f] = c
    return x
tot=0; okc=0; none=0
for f in st.feature_names:
    tree,_ = st(f); root = tree._root
    feats = [g for g in st.feature_names if g != f]
    names = set()
    for leaf, path in leaves_with_path(root):
        tot += 1
        w = witness(path, feats, None)
        if w is None: none += 1; continue
        reached = root.traverse(w, until_leaf=True) if hasattr(root, 'traverse') else root
        if reached is leaf: okc += 1
        else: print("witness misrouted", f, w)
        names.add(st.get_path_through_tree(root, w))
    keys = set(st.data_reservoirs[f].keys())
    print(f, "leaves", len(list(leaves_with_path(root))), "names", len(names), "keys", len(keys), "keys subset of names:", keys <= names, "== get_all_tree_paths:", names == set(get_all_tree_paths(root)))
print("total leaves", tot, "witness ok", okc, "infeasible", none)
print("n_alternate_trees / stats:", {f: (st(f)[0].n_alternate_trees, st(f)[0].n_pruned_alternate_trees, st(f)[0].n_switch_alternate_trees, st(f)[0].n_leaves) for f in st.feature_names})
