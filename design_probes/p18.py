import warnings, random
warnings.filterwarnings("ignore")
import numpy as np
from ixai.storage import TreeStorage
from ixai.storage.tree_storage import get_all_tree_paths
rnd = random.Random(5)
def gen(i, phase):
    c1 = rnd.choice([0,1,2]); c2 = rnd.choice([0,1])
    if phase == 0:
        n1 = rnd.gauss(0,0.3) + 5*(c1==0); n2 = rnd.gauss(0,0.3) + 4*c2
    elif phase == 1:
        n1 = rnd.gauss(0,0.3) + 5*(c2==1); n2 = rnd.gauss(0,0.3) - 4*(c1==2)
    else:
        n1 = rnd.gauss(0,0.3); n2 = rnd.gauss(0,0.3) + 3*(n1>0)
    return {'c1': c1, 'c2': c2, 'n1': n1, 'n2': n2}
def leaves_with_path(node, path=()):
    if hasattr(node, 'children'):
        for b, ch in enumerate(node.children):
            yield from leaves_with_path(ch, path + ((node, b),))
    else:
        yield node, path
for md, gp in [(3,20),(5,10),(2,50)]:
    random.seed(3); np.random.seed(3)
    st = TreeStorage(cat_feature_names=['c1','c2'], num_feature_names=['n1','n2'], max_depth=md, leaf_reservoir_length=3, grace_period=gp, seed=7)
    stale=0; sizes=set(); newest_missing=0
    prev_struct = {f: None for f in st.feature_names}; restruct=0; shrink=0
    for i in range(6000):
        x = gen(i, (i//1500)%3)
        st.update(x)
        for f in st.feature_names:
            tree,_ = st(f); root=tree._root
            paths = get_all_tree_paths(root)
            keys = set(st.data_reservoirs[f].keys())
            if not keys <= set(paths): stale += 1
            s = tuple(sorted(paths))
            if prev_struct[f] is not None and s != prev_struct[f]:
                restruct += 1
                if len(s) < len(prev_struct[f]) or not set(prev_struct[f]) <= set(s) and len(s)<=len(prev_struct[f]): shrink += 1
            prev_struct[f] = s
            xi = {k:v for k,v in x.items() if k!=f}
            lid = st.get_path_through_tree(root, xi)
            r = st.data_reservoirs[f].get(lid)
            if r is None or not any(d is x for d in r.get_data()[0]): newest_missing += 1
    print("md",md,"gp",gp,"stale",stale,"restructures",restruct,"shrinks",shrink,"newest_missing",newest_missing, {f: (st(f)[0].n_alternate_trees, st(f)[0].n_pruned_alternate_trees, st(f)[0].n_switch_alternate_trees, st(f)[0].n_leaves) for f in st.feature_names})
