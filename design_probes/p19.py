import warnings, random
warnings.filterwarnings("ignore")
import numpy as np
from ixai.storage import TreeStorage
from ixai.storage.tree_storage import get_all_tree_paths
rnd = random.Random(5)
def gen(i, phase):
    c1 = rnd.choice([0,1,2]); c2 = rnd.choice([0,1])
    if phase == 0:
        n1 = rnd.gauss(0,0.3) + 5*(c1==0); n2 = rnd.gauss(0,0.3) + 4*c2
    elif phase == 1:
        n1 = rnd.gauss(0,0.3) + 5*(c2==1); n2 = rnd.gauss(0,0.3) - 4*(c1==2)
    else:
        n1 = rnd.gauss(0,0.3); n2 = rnd.gauss(0,0.3) + 3*(n1>0)
    return {'c1': c1, 'c2': c2, 'n1': n1, 'n2': n2}
# consume the rnd the same way as before: three configs sequentially used the same rnd!
for md, gp in [(3,20),(5,10),(2,50)]:
    random.seed(3); np.random.seed(3)
    st = TreeStorage(cat_feature_names=['c1','c2'], num_feature_names=['n1','n2'], max_depth=md, leaf_reservoir_length=3, grace_period=gp, seed=7)
    prev = {f: None for f in st.feature_names}
    for i in range(6000):
        x = gen(i, (i//1500)%3)
        before = {f: (sorted(get_all_tree_paths(st(f)[0]._root)), sorted(st.data_reservoirs[f].keys())) for f in st.feature_names}
        st.update(x)
        for f in st.feature_names:
            root = st(f)[0]._root
            paths = set(get_all_tree_paths(root)); keys=set(st.data_reservoirs[f].keys())
            if not keys <= paths:
                print("STALE at step", i, "feature", f, "md", md, "gp", gp)
                print(" x =", x)
                print(" paths before:", *before[f][0], sep="\n    ")
                print(" keys  before:", *before[f][1], sep="\n    ")
                print(" paths after :", *sorted(paths), sep="\n    ")
                print(" keys  after :", *sorted(keys), sep="\n    ")
                xi = {k:v for k,v in x.items() if k!=f}
                print(" newest routed to:", st.get_path_through_tree(root, xi))
                # how long does it stay stale?
                j=0
                while True:
                    j+=1; x2 = gen(i+j, ((i+j)//1500)%3); st.update(x2)
                    if set(st.data_reservoirs[f].keys()) <= set(get_all_tree_paths(st(f)[0]._root)): break
                print(" stale for", j, "further updates")
                raise SystemExit
