import warnings
warnings.filterwarnings("ignore")
import numpy as np, random, collections
from ixai.storage import UniformReservoirStorage, GeometricReservoirStorage
# C08 uniformity k=1,n=3 and k=2,n=5
for k,n in [(1,3),(2,5),(3,10)]:
    cnt = collections.Counter(); R=40000
    for r in range(R):
        s = UniformReservoirStorage(size=k)
        for i in range(n): s.update({'t': i})
        for x in s.get_data()[0]: cnt[x['t']] += 1
    print("uniform k",k,"n",n,"expected",k/n, {t: round(c/R,3) for t,c in sorted(cnt.items())})
for k,n,p in [(2,6,None),(2,6,1.0),(3,8,0.5)]:
    cnt = collections.Counter(); R=40000
    for r in range(R):
        s = GeometricReservoirStorage(size=k, constant_probability=p)
        for i in range(n): s.update({'t': i})
        for x in s.get_data()[0]: cnt[x['t']] += 1
    pp = p if p is not None else 1/k
    exp = {t: round(((1-pp/k)**(n-k) if t<k else pp*(1-pp/k)**(n-1-t)),3) for t in range(n)}
    print("geo k",k,"n",n,"p",pp, {t: round(c/R,3) for t,c in sorted(cnt.items())}, "expected", exp)
