import warnings, random, hashlib, itertools
warnings.filterwarnings("ignore")
import numpy as np
from qnum import Q
from ixai.explainer import IncrementalSage, IncrementalPFI
from ixai.storage import *
from ixai.imputer import MarginalImputer, DefaultImputer
def h(*a): return int(hashlib.sha256(repr(a).encode()).hexdigest()[:8],16)
def key(x): return sorted(((repr(k), repr(v)) for k,v in x.items()))
log=[]
def mk_model(kind, names):
    def one(x):
        if kind=='scalar': return {'output': Q(h('m', key(x)) % 1000, 7)}
        if kind=='ignore': return {'output': Q(h('m', repr(x[names[0]])) % 1000, 7)}
        k = 2 + h('k', key(x)) % 3   # growing/varying label sets
        return {l: Q(h('m', l, key(x)) % 1000 + 1, 7) for l in range(k)}
    def model(x):
        log.append(('model', dict(x))); return one(x)
    model.one = one
    return model
def loss1(y, p): return Q(h('l', y, key(p)) % 2001 - 1000, 13)
def loss(y, p):
    log.append(('loss', y, dict(p))); return loss1(y,p)
def mean_out(outs):
    labels = {l for o in outs for l in o}
    return {l: sum(o.get(l, 0) for o in outs)/len(outs) for l in labels}
class RefStat:
    def __init__(s, dyn, a): s.dyn=dyn; s.a=a; s.vals=[]
    def add(s, v): s.vals.append(v)
    def get(s):
        n=len(s.vals)
        if n==0: return 0
        if s.dyn: return sum(Q(s.a)*(1-Q(s.a))**(n-1-i)*v for i,v in enumerate(s.vals))
        return sum(s.vals)/n
def run(seed, dyn, alpha, d, n_inner, strat, mkind, lbib, namekind):
    rnd = random.Random(seed); random.seed(seed); np.random.seed(seed)
    names = {'str': [f"f{j}" for j in range(d)], 'int': list(range(d)), 'float': [j+0.5 for j in range(d)]}[namekind]
    model = mk_model(mkind, names)
    st = GeometricReservoirStorage(size=3, constant_probability=0.7) if dyn else UniformReservoirStorage(size=3)
    imp = MarginalImputer(model, strat, st) if strat!='default' else DefaultImputer(model, {n: -1000-j for j,n in enumerate(names)})
    sage = IncrementalSage(model, loss, names, smoothing_alpha=alpha, storage=st, imputer=imp, n_inner_samples=n_inner, dynamic_setting=dyn, loss_bigger_is_better=lbib)
    pfi = IncrementalPFI(model, loss, names, smoothing_alpha=alpha, storage=st, imputer=imp, n_inner_samples=n_inner, dynamic_setting=dyn)
    # references
    R_imp = {n: RefStat(dyn, alpha) for n in names}; R_var = {n: RefStat(dyn, alpha) for n in names}
    R_marg = RefStat(dyn, alpha); R_mod = RefStat(dyn, alpha); R_pred = {}
    P_imp = {n: RefStat(dyn, alpha) for n in names}; P_var = {n: RefStat(dyn, alpha) for n in names}
    bad=[]
    for t in range(14):
        x = {n: t*100+j for j,n in enumerate(names)}; y = t
        log.clear(); ret = sage.explain_one(x, y, update_storage=False); slog = list(log)
        log.clear(); pret = pfi.explain_one(x, y); plog = list(log)
        if t == 0:
            if slog or plog or ret != {} or pret != {}: bad.append(('first', t))
            continue
        # ---- SAGE reference from model inputs
        minputs = [e[1] for e in slog if e[0]=='model']
        if len(minputs) != 1 + d*n_inner: bad.append(('count', t, len(minputs))); continue
        if minputs[0] != x: bad.append(('first-input', t))
        pred = model.one(x)
        for l,v in pred.items(): R_pred.setdefault(l, RefStat(dyn, alpha))
        for l,rs in R_pred.items(): rs.add(pred.get(l, 0))
        mp = {l: rs.get() for l,rs in R_pred.items()}
        if len(mp) > 1:
            s = sum(mp.values()); mp = {l: v/s for l,v in mp.items()}
        prev = loss1(y, mp); R_marg.add(prev); R_mod.add(loss1(y, pred))
        groups = [minputs[1+i*n_inner: 1+(i+1)*n_inner] for i in range(d)]
        imputed_sets = []
        for g in groups:
            sets = [frozenset(n for n in names if xi[n] != x[n]) for xi in g]
            if len(set(sets)) != 1: bad.append(('group-sets', t)); 
            imputed_sets.append(sets[0])
        remaining = frozenset(names); contrib = {}
        for g, s in zip(groups, imputed_sets):
            diff = remaining - s
            if len(diff) != 1 or not s < remaining: bad.append(('chain', t, remaining, s)); break
            f = next(iter(diff)); remaining = s
            cur = loss1(y, mean_out([model.one(xi) for xi in g]))
            contrib[f] = prev - cur; prev = cur
        for n in names:
            R_imp[n].add(contrib[n])
        for n in names:
            R_var[n].add((contrib[n] - R_imp[n].get())**2)
        off = 1 if lbib else 0
        obs = (dict(sage.importance_values), dict(sage.variances), sage.marginal_loss, sage.model_loss, dict(sage.marginal_prediction))
        exp = ({n: R_imp[n].get() for n in names}, {n: R_var[n].get() for n in names}, R_marg.get()+off, R_mod.get()+off, mp)
        for nm, o, e in zip(('imp','var','marg','mod','mpred'), obs, exp):
            if not (o == e): bad.append(('sage-'+nm, t, o, e))
        if ret != obs[0]: bad.append(('ret', t))
        # ---- PFI reference
        pin = [e[1] for e in plog if e[0]=='model']
        if len(pin) != 1 + d*n_inner or pin[0] != x: bad.append(('pfi-count', t)); continue
        ol = loss1(y, model.one(x)); c = {}
        rest = pin[1:]
        byf = {}
        for xi in rest:
            s = frozenset(n for n in names if xi[n] != x[n])
            if len(s) != 1: bad.append(('pfi-subset', t, s)); continue
            byf.setdefault(next(iter(s)), []).append(xi)
        for n in names:
            g = byf.get(n, [])
            if len(g) != n_inner: bad.append(('pfi-n', t, n, len(g))); continue
            c[n] = sum(loss1(y, model.one(xi)) for xi in g)/n_inner - ol
            P_imp[n].add(c[n])
        for n in names: P_var[n].add((c[n]-P_imp[n].get())**2)
        if not (dict(pfi.importance_values) == {n: P_imp[n].get() for n in names}): bad.append(('pfi-imp', t))
        if not (dict(pfi.variances) == {n: P_var[n].get() for n in names}): bad.append(('pfi-var', t))
        if mkind == 'ignore':
            for n in names[1:]:
                if pfi.importance_values[n] != 0: bad.append(('pfi-ignored-nonzero', t, n))
    return bad
tot=0; nb=0
for seed, (dyn, alpha), d, n_inner, strat, mkind, lbib, nk in zip(itertools.count(), itertools.cycle([(True, Q(1,3)), (False, Q(1,1000)), (True, 1), (True, 0.25)]), itertools.cycle([1,2,3,4]), itertools.cycle([1,2,3]), itertools.cycle(['joint','product','default']), itertools.cycle(['scalar','multi','ignore']), itertools.cycle([False, True]), itertools.cycle(['str','int','float'])):
    if seed >= 120: break
    b = run(seed, dyn, alpha, d, n_inner, strat, mkind, lbib, nk); tot += 1
    if b: nb += 1; print("BAD", seed, dyn, alpha, d, n_inner, strat, mkind, lbib, nk, b[:2])
print("configs", tot, "bad", nb)
