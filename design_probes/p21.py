import warnings, random, math, inspect
warnings.filterwarnings("ignore")
import river.metrics as M
from ixai.utils.validators import validate_loss_function
random.seed(2)
for name in ['RollingROCAUC','RollingPRAUC','ROCAUC','LogLoss','MSE','RMSE','SMAPE','CrossEntropy','MacroF1','CohenKappa','MCC','R2']:
    cls = getattr(M, name)
    try:
        m = cls(); lf = validate_loss_function(m)
    except Exception as e:
        print(name, "rejected", type(e).__name__); continue
    lf2 = validate_loss_function(m)   # second wrapper sharing the metric
    before = m.get(); viol=0; first=None
    for i in range(3000):
        if name in ('MSE','RMSE','SMAPE'):
            yt=random.uniform(-5,5); yp={'output': random.uniform(-5,5)}
        elif name=='CrossEntropy':
            yt=random.choice([0,1,2]); p=[random.random() for _ in range(3)]; s=sum(p); yp={k:v/s for k,v in enumerate(p)}
        elif name in ('MacroF1','CohenKappa'):
            yt=random.choice([0,1,2,'x']); yp={'output': random.choice([0,1,2,'x'])}
        elif name=='MCC':
            yt=random.choice([False,True]); yp={'output': random.choice([False,True])}
        else:
            yt=random.choice([False,True]); yp={'output': random.random()}
        got = (lf if i%2 else lf2)(yt, yp)
        f = cls(); f.update(yt, yp if lf._dict_input_metric else yp['output']); exp=f.get()*lf._sign
        same = (got==exp) or (isinstance(got,float) and isinstance(exp,float) and math.isnan(got) and math.isnan(exp))
        if not same:
            viol+=1
            if first is None: first=(i,yt,yp,got,exp)
    print(name, "violations", viol, "first", first, "metric value before/after", before, m.get())
