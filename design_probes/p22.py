import warnings, random, sys, time, contextlib
warnings.filterwarnings("ignore")
import numpy as np
from ixai.storage import *
class Scripted(random.Random):
    PAL=[0.0, 1e-12, 0.25, 0.5, 0.75, 1-2**-53]
    def __init__(self, script, extra=()):
        super().__init__(0); self.script=list(script); self.pos=0; self.arity=[]; self.pal=self.PAL+list(extra)
    def _next(self, arity):
        if self.pos < len(self.script): c = self.script[self.pos]
        else: c = 0; self.script.append(0)
        self.arity.append(arity); self.pos += 1
        return c
    def random(self): return self.pal[self._next(len(self.pal))]
    def _randbelow(self, n): return self._next(n)
    def getrandbits(self, k): return self._next(2**k)
@contextlib.contextmanager
def scripted(script, extra=()):
    s = Scripted(script, extra); saved={}
    for name in random.__all__:
        obj = getattr(random, name)
        if getattr(obj, '__self__', None) is random._inst:
            saved[name]=obj; setattr(random, name, getattr(s, name))
    try: yield s
    finally:
        for k,v in saved.items(): setattr(random, k, v)
def check(st, arrivals, cap, targets, kind):
    xs, ys = st.get_data(); xs=list(xs); ys=list(ys)
    n=len(arrivals)
    assert len(st)==len(xs)==min(n,cap), ("count", len(xs), n, cap)
    ids=[id(x) for x in xs]; assert len(set(ids))==len(ids), "dup"
    idx=[]
    for x in xs:
        m=[i for i,(ax,ay) in enumerate(arrivals) if ax is x]; assert len(m)==1, "not an arrival"; idx.append(m[0])
    if targets:
        assert len(ys)==len(xs), "ylen"
        for i,y in zip(idx, ys): assert arrivals[i][1] is y, ("misaligned", i)
    else: assert len(ys)==0, "targets kept"
    if kind=='batch': assert idx==list(range(n))
    if kind in ('interval','sequence'): assert idx==list(range(max(0,n-cap), n)), idx
def explore(make, n, cap, targets, kind, extra=()):
    stack=[[]]; paths=0; outcomes=set(); t0=time.time()
    while stack:
        script = stack.pop()
        with scripted(script, extra) as s:
            st = make(); arr=[]
            for i in range(n):
                x={'t': i}; y=object(); arr.append((x,y)); st.update(x, y); check(st, arr, cap, targets, kind)
            out = tuple(x['t'] for x in st.get_data()[0])
        paths += 1; outcomes.add(out)
        L = len(script)
        for pos in range(len(s.script)-1, L-1, -1):
            for alt in range(1, s.arity[pos]):
                stack.append(s.script[:pos] + [alt])
    return paths, len(outcomes), round(time.time()-t0,2)
for tg in (True, False):
    print("geo", tg, explore(lambda: GeometricReservoirStorage(size=2, constant_probability=0.5, store_targets=tg), 6, 2, tg, 'geo', extra=(0.5, 0.5000000000000001, 0.49999999999999994)))
    print("geo p=1", tg, explore(lambda: GeometricReservoirStorage(size=3, constant_probability=1.0, store_targets=tg), 6, 3, tg, 'geo'))
    print("geo p=0", tg, explore(lambda: GeometricReservoirStorage(size=2, constant_probability=0.0, store_targets=tg), 5, 2, tg, 'geo'))
    print("uni", tg, explore(lambda: UniformReservoirStorage(size=2, store_targets=tg), 5, 2, tg, 'uni'))
    print("interval", explore(lambda: IntervalStorage(size=3, store_targets=tg), 8, 3, tg, 'interval'))
    print("sequence", explore(lambda: SequenceStorage(store_targets=tg), 4, 1, tg, 'sequence'))
    print("batch", explore(lambda: BatchStorage(store_targets=tg), 6, 10**9, tg, 'batch'))
