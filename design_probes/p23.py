import warnings, random, copy
warnings.filterwarnings("ignore")
import numpy as np
from ixai.explainer import IncrementalSage, IncrementalPFI
from ixai.storage import *
from ixai.imputer import MarginalImputer, DefaultImputer
log=[]
class St(UniformReservoirStorage):
    def update(self, x, y=None):
        log.append(('storage', x, y)); super().update(x, y)
def model(x): log.append(('model', dict(x))); return {'output': sum(v for v in x.values())}
def loss(a, b): log.append(('loss',)); return (a-b['output'])**2
bad=[]
for cls in (IncrementalPFI, IncrementalSage):
  for names in (['a','b','c'], [0,1], [0.5,1.5,2.5,3.5]):
    for n_inner in (1,3):
        d=len(names); random.seed(1); np.random.seed(1)
        st = St(size=3, store_targets=True)
        e = cls(model, loss, names, storage=st, smoothing_alpha=0.1, n_inner_samples=n_inner)
        names0 = list(names)
        for t in range(12):
            x={n: t*100+j for j,n in enumerate(names)}; x0=dict(x); y=float(t)
            upd = (t%4 != 3); override = 2 if t%5==4 else None
            log.clear(); seen0=e.seen_samples
            r = e.explain_one(x, y, n_inner_samples=override, update_storage=upd)
            ni = override or n_inner
            nm = sum(1 for ev in log if ev[0]=='model'); ns=[i for i,ev in enumerate(log) if ev[0]=='storage']
            exp_nm = 0 if t==0 else 1+d*ni
            if nm != exp_nm: bad.append((cls.__name__, 'count', t, nm, exp_nm))
            if e.seen_samples != seen0+1: bad.append('seen')
            if x != x0 or names != names0: bad.append('mutated')
            if upd:
                if len(ns)!=1 or ns[0]!=len(log)-1 or log[ns[0]][1] is not x or log[ns[0]][2] != y: bad.append((cls.__name__,'storage-order', t, ns, len(log)))
            elif ns: bad.append('storage-updated')
            if r != e.importance_values: bad.append('ret')
            if t>0 and set(r.keys()) != set(names): bad.append(('keys', set(r.keys())))
            for ev in log:
                if ev[0]=='model':
                    for n in names:
                        pass
print("bad:", bad[:10], len(bad))
# joint same row
seen=[]
st = BatchStorage()
for t in range(4): st.update({'a': t*10, 'b': t*10+1, 'c': t*10+2})
imp = MarginalImputer(lambda x: (seen.append(dict(x)) or {'output': 0}), 'joint', st)
imp.impute({'a','b','c'}, {'a': -1, 'b': -2, 'c': -3}, 200)
print("joint rows consistent:", all(len({v//10 for v in s.values()})==1 for s in seen), "rows used", sorted({s['a']//10 for s in seen}))
seen.clear(); imp2 = MarginalImputer(lambda x: (seen.append(dict(x)) or {'output': 0}), 'product', st)
imp2.impute(['a','b','c'], {'a': -1, 'b': -2, 'c': -3}, 200)
print("product mixes rows:", any(len({v//10 for v in s.values()})>1 for s in seen))
