import warnings, inspect, importlib, pkgutil, time
warnings.filterwarnings("ignore")
t0=time.time()
from sklearn.utils import all_estimators
from ixai.utils.validators import validate_model_function
from ixai.utils.wrappers import SklearnWrapper, RiverWrapper, TorchWrapper
res={'ok':0,'skip':0,'bad':[]}
for name, cls in all_estimators():
    try: est = cls()
    except Exception: res['skip']+=1; continue
    for meth in ('predict','predict_proba','decision_function','predict_log_proba'):
        try: fn = getattr(est, meth)
        except Exception: continue
        with warnings.catch_warnings():
            warnings.simplefilter('ignore')
            w = validate_model_function(fn)
        if isinstance(w, SklearnWrapper): res['ok']+=1
        else: res['bad'].append((name, meth, type(w).__name__))
print("sklearn", res['ok'], res['skip'], res['bad'][:10], len(res['bad']), round(time.time()-t0,1))
import river
rres={'ok':0,'skip':0,'bad':[]}
seen=set()
for mi in pkgutil.walk_packages(river.__path__, 'river.'):
    if any(p.startswith('_') or p in ('test','tests','conftest','datasets') or p.startswith('test_') for p in mi.name.split('.')[1:]): continue
    try: mod = importlib.import_module(mi.name)
    except Exception: continue
    for n, cls in inspect.getmembers(mod, inspect.isclass):
        if cls in seen or not cls.__module__.startswith('river.'): continue
        seen.add(cls)
        if not any(hasattr(cls, m) for m in ('predict_one','predict_proba_one')): continue
        if inspect.isabstract(cls): continue
        try: obj = cls()
        except Exception: rres['skip']+=1; continue
        for meth in ('predict_one','predict_proba_one'):
            fn = getattr(obj, meth, None)
            if fn is None or not hasattr(fn, '__self__'): continue
            with warnings.catch_warnings():
                warnings.simplefilter('ignore')
                w = validate_model_function(fn)
            if isinstance(w, RiverWrapper): rres['ok']+=1
            else: rres['bad'].append((cls.__module__, n, meth, type(w).__name__))
print("river", rres['ok'], rres['skip'], rres['bad'][:10], len(rres['bad']), round(time.time()-t0,1))
