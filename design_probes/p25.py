import warnings, random, hashlib, itertools, collections, math
warnings.filterwarnings("ignore")
import numpy as np
from qnum import Q
from scipy.stats import binom
from ixai.explainer import IncrementalSage, IncrementalPFI
from ixai.storage import BatchStorage
from ixai.imputer import MarginalImputer
def h(*a): return int(hashlib.sha256(repr(a).encode()).hexdigest()[:8],16)
def key(x): return sorted(((repr(k), repr(v)) for k,v in x.items()))
def model(x): return {0: Q(h('m0', key(x)) % 9 + 1), 1: Q(h('m1', key(x)) % 9 + 1)}
def loss(y, p): return Q(h('l', y, key(p)) % 41 - 20, 4)
def mean_out(outs):
    labels = {l for o in outs for l in o}
    return {l: sum(o.get(l, 0) for o in outs)/len(outs) for l in labels}
names=['a','b','c']; m=3; n_inner=1
rows=[{n: 100*r+j for j,n in enumerate(names)} for r in range(m)]
x={n: 900+j for j,n in enumerate(names)}; y=7
for strat in ('joint','product'):
    # exact distribution of contribution vector
    dist=collections.Counter()
    pred=model(x); s=sum(pred.values()); mp={l:v/s for l,v in pred.items()}
    v0=loss(y, mp)
    for perm in itertools.permutations(names):
        # per step: subset to impute = remaining after removing revealed; draws: joint -> one row idx per inner sample; product -> one per feature in subset
        def rec(step, remaining, prev, contrib, prob):
            if step==len(names):
                dist[tuple(contrib[n] for n in names)] += prob; return
            f=perm[step]; rem=[n for n in remaining if n!=f]
            if strat=='joint': choices=[(r,)*len(rem) for r in range(m)]; pc=Q(1,m)
            else: choices=list(itertools.product(range(m), repeat=len(rem))); pc=Q(1, m**len(rem)) if rem else Q(1)
            if not rem and strat=='product': choices=[()]
            for ch in choices:
                xi=dict(x)
                for n,r in zip(rem, ch): xi[n]=rows[r][n]
                cur=loss(y, mean_out([model(xi)]))
                c=dict(contrib); c[f]=prev-cur
                rec(step+1, rem, cur, c, prob*pc)
        rec(0, names, v0, {}, Q(1, math.factorial(len(names))))
    assert sum(dist.values())==1
    expect={n: sum(p*vec[i] for vec,p in dist.items()) for i,n in enumerate(names)}
    # real code
    random.seed(11); np.random.seed(11)
    st=BatchStorage()
    for r in rows: st.update(r)
    e=IncrementalSage(model, loss, names, smoothing_alpha=1, storage=st, imputer=MarginalImputer(model, strat, st), n_inner_samples=n_inner, dynamic_setting=True)
    e.explain_one({n: 500+j for j,n in enumerate(names)}, 1, update_storage=False)  # first call seeds nothing
    R=20000; obs=collections.Counter(); tot={n: Q(0) for n in names}
    for _ in range(R):
        r=e.explain_one(x, y, update_storage=False)
        vec=tuple(r[n] for n in names); obs[vec]+=1
        for n in names: tot[n]=tot[n]+r[n]
    unknown=[v for v in obs if v not in dist]
    T=len(dist); worst=1
    for vec,p in dist.items():
        k=obs.get(vec,0); pv=min(1, 2*min(binom.cdf(k,R,float(p)), binom.sf(k-1,R,float(p)))); worst=min(worst,pv)
    print(strat, "distinct outcomes exact", T, "observed", len(obs), "unknown", len(unknown), "min cell p-value", worst, "bonferroni thr", 1e-9/T)
    print("   mean", {n: float(tot[n]/R) for n in names}, "exact", {n: float(v) for n,v in expect.items()})
