import warnings, random, math, copy
warnings.filterwarnings("ignore")
import numpy as np
from qnum import Q
from ixai.utils.tracker import WelfordTracker, ExponentialSmoothingTracker, MultiValueTracker
from ixai.explainer import IncrementalPFI, IncrementalSage
rnd = random.Random(7)
# C10 exact
bad=0; n_eval=0
for trial in range(300):
    n = rnd.randrange(0, 40); vals=[Q(rnd.randrange(-10**6,10**6), rnd.randrange(1,10**4)) for _ in range(n)]
    a = rnd.choice([Q(0), Q(1), Q(1,3), Q(rnd.randrange(1,1000), 1000)])
    w=WelfordTracker(); e=ExponentialSmoothingTracker(a)
    for i,v in enumerate(vals, 1):
        w.update(v); e.update(v); n_eval+=1
        m=sum(vals[:i])/i; var=sum((x-m)**2 for x in vals[:i])/i
        es=sum(a*(1-a)**(i-1-j)*x for j,x in enumerate(vals[:i]))
        if not (w.mean==m and w.get()==m and w.var==var and w.N==i and e.get()==es and e.N==i): bad+=1
        if not (min(vals[:i]) <= w.mean <= max(vals[:i])): bad+=1
    if n==0 and not (w.var==0 and w.mean==0): bad+=1
print("C10 exact evals", n_eval, "bad", bad)
# C12 reference
def ref(history, mk):
    out={}
    first={}
    for t,u in enumerate(history):
        for k in u: first.setdefault(k,t)
    for k,t0 in first.items():
        tr=mk()
        for u in history[t0:]: tr.update(u.get(k,0))
        out[k]=tr.get()
    return out
bad=0; n_eval=0
for trial in range(300):
    mk = rnd.choice([lambda: WelfordTracker(), lambda: ExponentialSmoothingTracker(Q(1,4))])
    mv=MultiValueTracker(mk()); hist=[]
    keys=['a','b',3,(1,2),'e']
    for t in range(rnd.randrange(1,25)):
        u={k: Q(rnd.randrange(-50,50), rnd.randrange(1,9)) for k in keys if rnd.random()<0.5}
        mv.update(u); hist.append(u); n_eval+=1
        exp=ref(hist, mk); got=mv.get()
        if got!=exp or mv.N!=len(hist): bad+=1
        g=mv.get_normalized()
        if len(exp)>1:
            s=sum(exp.values())
            if s!=0:
                if g!={k:v/s for k,v in exp.items()} or sum(g.values())!=1: bad+=1
            else:
                if any(v!=0 for v in g.values()): bad+=1
        elif g!=exp: bad+=1
print("C12 exact evals", n_eval, "bad", bad)
# C16 confidence bound on reachable states
def model(x): return {'output': x['a']*2 + x['b']}
def loss(y,p): return (y-p['output'])**2
bad=0; n_eval=0
for cls in (IncrementalPFI, IncrementalSage):
    for dyn, a in [(True,0.3),(True,1.0),(False,0.001),(True,0.001)]:
        random.seed(1); np.random.seed(1)
        e=cls(model, loss, ['a','b'], smoothing_alpha=a, dynamic_setting=dyn, n_inner_samples=2)
        for t in range(40):
            e.explain_one({'a': rnd.gauss(0,1), 'b': rnd.gauss(0,1)}, rnd.gauss(0,1))
            if t==0: continue
            var=e.variances
            prevb=None
            for delta in (1e-6, 0.01, 0.5, 1.0):
                b=e.get_confidence_bound(delta); n_eval+=1
                for f in ['a','b']:
                    exp=(1-a)**e.seen_samples + math.sqrt(var[f]*a/((2-a)*delta))
                    if not (math.isfinite(b[f]) and b[f]>=0 and abs(b[f]-exp)<=1e-12*max(1,exp) and var[f]>=0): bad+=1
                    if prevb is not None and b[f] > prevb[f]+1e-15: bad+=1
                prevb=b
print("C16 bound evals", n_eval, "bad", bad)
