import warnings, random, copy, sys, subprocess, hashlib, os
warnings.filterwarnings("ignore")
import numpy as np
from ixai.explainer import BatchSage, IntervalSage, IncrementalSage, IncrementalPFI
from ixai.storage import *
from ixai.imputer import MarginalImputer
if len(sys.argv) > 1 and sys.argv[1] == 'replay':
    # C18 scenario: digest of all outputs
    if len(sys.argv) > 2:   # junk preamble
        for _ in range(5): UniformReservoirStorage(size=3); GeometricReservoirStorage(size=2).update({'a':1})
    random.seed(5); np.random.seed(5)
    def model(x): return {'output': 2*x['a'] + x['b']*x['c']}
    def loss(y,p): return (y-p['output'])**2
    hsh = hashlib.sha256()
    st = UniformReservoirStorage(size=4); imp = MarginalImputer(model, 'product', st)
    s = IncrementalSage(model, loss, ['a','b','c'], smoothing_alpha=0.1, storage=st, imputer=imp, n_inner_samples=2)
    p = IncrementalPFI(model, loss, ['a','b','c'], smoothing_alpha=0.1, n_inner_samples=2, dynamic_setting=False)
    ts = TreeStorage(cat_feature_names=['a'], num_feature_names=['b','c'], max_depth=3, leaf_reservoir_length=4, grace_period=10, seed=3)
    rnd = random.Random(1)
    for t in range(200):
        x = {'a': float(rnd.randrange(3)), 'b': rnd.gauss(0,1), 'c': rnd.gauss(0,1)}; y = rnd.gauss(0,1)
        r1 = s.explain_one(x, y); r2 = p.explain_one(x, y); ts.update(x)
        hsh.update(repr((sorted((str(k), float(v).hex()) for k,v in r1.items()), sorted((str(k), float(v).hex()) for k,v in r2.items()), [d for d in st.get_data()[0]])).encode())
    hsh.update(repr(sorted((f, sorted(d.keys())) for f,d in ts.data_reservoirs.items())).encode())
    print(hsh.hexdigest()[:16]); sys.exit()
outs = []
for extra in ([], ['junk'], []):
    env = dict(os.environ, PYTHONHASHSEED='0')
    outs.append(subprocess.run([sys.executable, __file__, 'replay'] + extra, capture_output=True, text=True, env=env).stdout.strip().splitlines()[-1])
env = dict(os.environ, PYTHONHASHSEED='123')
outs.append(subprocess.run([sys.executable, __file__, 'replay'], capture_output=True, text=True, env=env).stdout.strip().splitlines()[-1])
print("C18 digests (hashseed 0, 0+junk, 0, 123):", outs)
# C17 on batch / interval
class Boom(Exception): pass
cnt={'n':0,'fail':None}
def tick():
    cnt['n']+=1
    if cnt['n']==cnt['fail']: raise Boom()
def model(x):
    tick()
    if isinstance(x, dict): return {'output': 2*x['a'] + x['b']}
    return [{'output': 2*xi['a'] + xi['b']} for xi in x]
def loss(*a, **k):
    tick(); v=list(a)+list(k.values()); return (v[0]-v[1]['output'])**2
for cls, kw in ((BatchSage, {}), (IntervalSage, dict(interval_length=1, storage_length=3))):
    random.seed(2); np.random.seed(2)
    e = cls(model, ['a','b'], loss, n_inner_samples=2, **kw)
    cnt['fail']=None
    for t in range(4): e.explain_one({'a': t, 'b': t*t}, t, verbose=False)
    cnt['n']=0; e2=copy.deepcopy(e); e2.explain_one({'a': 9, 'b': 1}, 3, verbose=False); K=cnt['n']
    bad=[]
    for k in range(1, K+1):
        e3=copy.deepcopy(e); before=dict(e3.importance_values); cnt['n']=0; cnt['fail']=k
        try: e3.explain_one({'a': 9, 'b': 1}, 3, verbose=False); raised=False
        except Boom: raised=True
        cnt['fail']=None
        if not raised or dict(e3.importance_values)!=before: bad.append(k)
    print(cls.__name__, "callbacks", K, "bad fault positions", bad)
