import warnings
warnings.filterwarnings("ignore")
import numpy as np, random, collections
from ixai.storage import UniformReservoirStorage
class Fixed(UniformReservoirStorage):
    def update(self, x, y=None):
        self.stored_samples += 1
        if self.stored_samples <= self.size:
            self._storage_x.append(x)
            if self.store_targets: self._storage_y.append(y)
        else:
            if self._algo_l_counter == self.stored_samples:
                rand_idx = random.randrange(self.size)
                self._storage_x[rand_idx] = x
                if self.store_targets: self._storage_y[rand_idx] = y
                self._algo_wt *= np.exp(np.log(random.random()) / self.size)
                self._algo_l_counter += (np.floor(np.log(random.random()) / np.log(1 - self._algo_wt)) + 1)
for k,n in [(1,3),(2,5),(3,10)]:
    cnt = collections.Counter(); R=40000
    for r in range(R):
        s = Fixed(size=k)
        for i in range(n): s.update({'t': i})
        for x in s.get_data()[0]: cnt[x['t']] += 1
    print("uniform k",k,"n",n,"expected",k/n, {t: round(c/R,3) for t,c in sorted(cnt.items())})
s = UniformReservoirStorage(size=3); print(type(s._algo_l_counter), s._algo_l_counter, type(s._algo_wt))
