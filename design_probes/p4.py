import warnings
warnings.filterwarnings("ignore")
import numpy as np
from ixai.utils.wrappers import SklearnWrapper, RiverWrapper, TorchWrapper
def t(name, f):
    try:
        r = f(); print("OK  ", name, repr(r))
    except Exception as e:
        print("FAIL", name, type(e).__name__, e)
for shape in [(), (1,), (1,1), (3,), (1,3), (3,1)]:
    def pf(arr, shape=shape):
        return np.arange(1, 1+int(np.prod(shape)), dtype=float).reshape(shape)
    w = SklearnWrapper(pf)
    t(f"single out shape {shape}", lambda: w({'a': 1, 'b': 2}))
# batch
for cshape in [(), (1,), (2,)]:
    def pf(arr, cshape=cshape):
        n = arr.shape[0]
        return np.arange(n*int(np.prod(cshape) if cshape else 1), dtype=float).reshape((n,)+cshape)
    w = SklearnWrapper(pf)
    t(f"batch rows shape (n,)+{cshape}", lambda: w([{'a': 1, 'b': 2},{'a': 3, 'b': 4},{'a': 3, 'b': 4}]))
    t(f"batch 1 row shape (1,)+{cshape}", lambda: w([{'a': 1, 'b': 2}]))
    t(f"single row shape (1,)+{cshape}", lambda: w({'a': 1, 'b': 2}))
# key order with feature names
seen=[]
def pf(arr): seen.append(arr.copy()); return np.array([arr.sum()])
w = SklearnWrapper(pf, feature_names=['a','b'])
t("fn order1", lambda: w({'a':1,'b':2,'c':5})); t("fn order2", lambda: w({'c':5,'b':2,'a':1})); print(seen)
seen.clear()
t("fn batch", lambda: w([{'c':5,'b':2,'a':1},{'a':1,'b':2,'c':5}])); print(seen)
from collections import deque
t("deque batch", lambda: w(deque([{'c':5,'b':2,'a':1},{'a':1,'b':2,'c':5}])))
# int dtype outputs
w = SklearnWrapper(lambda arr: np.array([1]))
t("int (1,)", lambda: w({'a':1}))
w = SklearnWrapper(lambda arr: np.array(['x']))
t("str (1,)", lambda: w({'a':1}))
w = SklearnWrapper(lambda arr: np.array([[0.2,0.8]], dtype=np.float32))
t("f32 (1,2)", lambda: w({'a':1}))
# river wrapper
rw = RiverWrapper(lambda x: 'cat' if x['a']>0 else 'dog')
t("river str1", lambda: rw({'a':1})); t("river str2", lambda: rw({'a':-1})); t("river str3", lambda: rw({'a':1}))
t("river list", lambda: rw([{'a':1},{'a':-1}]))
rw = RiverWrapper(lambda x: True); t("river bool", lambda: rw({'a':1}))
rw = RiverWrapper(lambda x: None); t("river None", lambda: rw({'a':1}))
rw = RiverWrapper(lambda x: np.array([3.0])); t("river arr1", lambda: rw({'a':1}))
import torch
tw = TorchWrapper(lambda x: x.sum(dim=-1))
t("torch (1,)", lambda: tw({'a':1,'b':2})); t("torch batch", lambda: tw([{'a':1,'b':2},{'a':3,'b':2}]))
tw = TorchWrapper(lambda x: x.sum(dim=-1, keepdim=True))
t("torch (1,1)", lambda: tw({'a':1,'b':2})); t("torch batch (n,1)", lambda: tw([{'a':1,'b':2},{'a':3,'b':2}]))
tw = TorchWrapper(lambda x: x*2)
t("torch (1,2)", lambda: tw({'a':1,'b':2})); t("torch batch (n,2)", lambda: tw([{'a':1,'b':2},{'a':3,'b':2}]))
