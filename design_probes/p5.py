import warnings, inspect, copy
warnings.filterwarnings("ignore")
import river.metrics as M
from river.metrics.base import Metric
from ixai.utils.validators import validate_loss_function
names = [n for n in dir(M) if inspect.isclass(getattr(M,n)) and issubclass(getattr(M,n), Metric)]
print(len(names), names)
ok=[]; bad=[]
for n in names:
    cls = getattr(M,n)
    try:
        m = cls()
    except Exception as e:
        bad.append((n,'ctor',type(e).__name__, str(e)[:60])); continue
    try:
        lf = validate_loss_function(m)
        ok.append((n, lf._dict_input_metric, lf._sign, m.get()))
    except Exception as e:
        bad.append((n,'validate',type(e).__name__, str(e)[:80], type(e.__cause__).__name__ if e.__cause__ else None, str(e.__cause__)[:80]))
for o in ok: print("OK", o)
for b in bad: print("BAD", b)
