import warnings, inspect, copy, random, math
warnings.filterwarnings("ignore")
import river.metrics as M
from river.metrics.base import Metric, ClassificationMetric, RegressionMetric, BinaryMetric, MultiClassMetric
from ixai.utils.validators import validate_loss_function
names = [n for n in dir(M) if inspect.isclass(getattr(M,n)) and issubclass(getattr(M,n), Metric)]
random.seed(1)
def eq(a,b):
    if isinstance(a,float) and isinstance(b,float) and math.isnan(a) and math.isnan(b): return True
    return a==b
for n in names:
    cls = getattr(M,n)
    try:
        m = cls(); lf = validate_loss_function(m)
    except Exception as e:
        continue
    kind = 'reg' if isinstance(m, RegressionMetric) else ('bin' if isinstance(m, BinaryMetric) else 'multi')
    before = m.get()
    nviol=0; first=None; exc=None
    for i in range(200):
        if kind=='reg':
            yt = random.uniform(0.1,5); yp = {'output': random.uniform(0.1,5)}
        elif lf._dict_input_metric:
            yt = random.choice([0,1,2]); p=[random.random() for _ in range(3)]; s=sum(p); yp={k:v/s for k,v in enumerate(p)}
        elif kind=='bin':
            yt = random.choice([0,1]); yp={'output': random.choice([0,1]) if m.requires_labels else random.random()}
        else:
            yt = random.choice([0,1,2]); yp={'output': random.choice([0,1,2])}
        try:
            got = lf(yt, yp)
        except Exception as e:
            exc = (i, type(e).__name__, str(e)[:50]); break
        f = cls(); f.update(yt, yp if lf._dict_input_metric else yp['output']); exp = f.get()*lf._sign
        if not eq(got, exp):
            nviol+=1
            if first is None: first=(i,yt,yp,got,exp)
    after = m.get()
    print(n, kind, "viol", nviol, first, "metric before/after", before, after, "exc", exc)
