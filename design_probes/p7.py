import warnings, random, copy, traceback
warnings.filterwarnings("ignore")
import numpy as np
from ixai.storage import TreeStorage
from ixai.storage.tree_storage import get_all_tree_paths
from ixai.imputer import TreeImputer
random.seed(3); np.random.seed(3)
def gen(i, drift=False):
    c1 = random.choice([0,1,2]); c2 = random.choice([0,1])
    n1 = random.gauss(0,1) + (3 if c1==0 else 0); n2 = random.gauss(0,1)*(1+c2) + (5 if (drift and c1==1) else 0)
    return {'c1': c1, 'c2': c2, 'n1': n1, 'n2': n2}
st = TreeStorage(cat_feature_names=['c1','c2'], num_feature_names=['n1','n2'], max_depth=4, leaf_reservoir_length=5, grace_period=20, seed=7)
stale = 0; maxlen=0
for i in range(3000):
    x = gen(i, drift=i>1500)
    st.update(x)
    for f in st.feature_names:
        paths = set(get_all_tree_paths(st._storage_x[f]._root))
        keys = set(st.data_reservoirs[f].keys())
        if not keys <= paths: stale += 1
        for k, r in st.data_reservoirs[f].items():
            maxlen = max(maxlen, len(r))
print("len", len(st), "stale-events", stale, "maxlen", maxlen)
for f in st.feature_names:
    print(f, "n reservoirs", len(st.data_reservoirs[f]), "n leaves", len(get_all_tree_paths(st._storage_x[f]._root)), "height", st._storage_x[f].height)
k = list(st.data_reservoirs['n1'].keys())[0]; print(repr(k)[:300])
calls=[]
def model(x): calls.append(dict(x)); return {'output': 0.0}
for use_storage in [False, True]:
    for direct in [False, True]:
        imp = TreeImputer(model, st, direct_predict_numeric=direct, use_storage=use_storage)
        x = gen(0)
        x0 = dict(x)
        try:
            calls.clear()
            out = imp.impute(['c1','n1'], x, n_samples=3)
            print(use_storage, direct, "OK", len(out), calls[:2], x==x0)
        except Exception as e:
            print(use_storage, direct, "FAIL", type(e).__name__, e); traceback.print_exc()
