import warnings, random, copy
warnings.filterwarnings("ignore")
import numpy as np
from ixai.explainer import IncrementalSage, IncrementalPFI
from ixai.utils.tracker import MultiValueTracker, WelfordTracker, ExponentialSmoothingTracker
from ixai.explainer.base import BaseIncrementalFeatureImportance as B
# C12 / C16 NaN probes
for T in (WelfordTracker(), ExponentialSmoothingTracker(0.5)):
    m = MultiValueTracker(T)
    m.update({'a': np.float64(1.0), 'b': np.float64(-1.0)})
    print(type(T).__name__, "np zero-sum normalized:", m.get_normalized())
    m = MultiValueTracker(T); m.update({'a': 1.0, 'b': -1.0}); print("py zero-sum:", m.get_normalized())
    m = MultiValueTracker(T); m.update({'a': 0, 'b': 0}); print("int zeros:", m.get_normalized())
    m = MultiValueTracker(T); m.update({'a': np.float32(0), 'b': np.float32(0)}); print("f32 zeros:", m.get_normalized())
print(B._normalize_importance_values({'a': np.float64(0.0), 'b': np.float64(0.0)}, 'sum'))
print(B._normalize_importance_values({'a': np.float64(1.0), 'b': np.float64(1.0)}, 'delta'))
print(B._normalize_importance_values({'a': 1.0, 'b': 1.0}, 'delta'))
print(B._normalize_importance_values({'a': 1, 'b': -1}, 'sum'))
# C17 probe
class Boom(Exception): pass
def make(cls, fail_at):
    cnt = {'n': 0}
    def tick():
        cnt['n'] += 1
        if cnt['n'] == fail_at[0]: raise Boom()
    def model(x): tick(); return {'output': 2*x['a'] + x['b']*x['c']}
    def loss(y, p): tick(); return (y - p['output'])**2
    e = cls(model, loss, ['a','b','c'], smoothing_alpha=0.3, n_inner_samples=2, dynamic_setting=True)
    return e, cnt
for cls in (IncrementalSage, IncrementalPFI):
    random.seed(0); np.random.seed(0)
    fail_at=[None]
    e, cnt = make(cls, fail_at)
    data = [({'a': random.random(), 'b': random.random(), 'c': random.random()}, random.random()) for _ in range(6)]
    for x,y in data[:4]: e.explain_one(x,y)
    c0 = cnt['n']; e2 = copy.deepcopy(e)
    st = (random.getstate(), np.random.get_state())
    e.explain_one(*data[4]); ncb = cnt['n'] - c0
    print(cls.__name__, "callbacks per call", ncb)
    bad=[]
    for k in range(1, ncb+1):
        random.setstate(st[0]); np.random.set_state(st[1])
        e3 = copy.deepcopy(e2)
        # reach into closure counters: deepcopy copies closures? functions are not deep-copied; share cnt
        cnt['n'] = 0; fail_at[0] = k
        snap = lambda ex: (dict(ex.importance_values), dict(ex.variances), getattr(ex,'marginal_loss',None), getattr(ex,'model_loss',None), dict(getattr(ex,'marginal_prediction',{})))
        before = snap(e3)
        try:
            e3.explain_one(*data[4]); raised=False
        except Boom: raised=True
        after = snap(e3)
        if before != after: bad.append(k)
        fail_at[0]=None
    print(cls.__name__, "fault positions changing estimates:", bad)
