from fractions import Fraction
import numbers, math
def _tofrac(o):
    if isinstance(o, Q): return o.f
    if isinstance(o, bool): return Fraction(int(o))
    if isinstance(o, (int, Fraction)): return Fraction(o)
    if isinstance(o, float): return Fraction(o)
    try:
        import numpy as np
        if isinstance(o, np.integer): return Fraction(int(o))
        if isinstance(o, np.floating): return Fraction(float(o))
    except ImportError: pass
    return None
class Q:
    """exact rational that absorbs ints/floats exactly"""
    __slots__=('f',)
    __array_priority__ = 1000
    def __init__(self, a=0, b=1):
        self.f = Fraction(a, b) if b != 1 else _tofrac(a)
    def _bin(self, o, op, rev=False):
        g = _tofrac(o)
        if g is None: return NotImplemented
        r = op(g, self.f) if rev else op(self.f, g)
        return Q(r)
    def __add__(s,o): return s._bin(o, lambda a,b:a+b)
    def __radd__(s,o): return s._bin(o, lambda a,b:a+b, True)
    def __sub__(s,o): return s._bin(o, lambda a,b:a-b)
    def __rsub__(s,o): return s._bin(o, lambda a,b:a-b, True)
    def __mul__(s,o): return s._bin(o, lambda a,b:a*b)
    def __rmul__(s,o): return s._bin(o, lambda a,b:a*b, True)
    def __truediv__(s,o): return s._bin(o, lambda a,b:a/b)
    def __rtruediv__(s,o): return s._bin(o, lambda a,b:a/b, True)
    def __neg__(s): return Q(-s.f)
    def __pos__(s): return s
    def __abs__(s): return Q(abs(s.f))
    def __pow__(s, e):
        if isinstance(e, int): return Q(s.f**e)
        return float(s.f)**e
    def __float__(s): return float(s.f)
    def __eq__(s,o):
        g=_tofrac(o); return g is not None and s.f==g
    def __lt__(s,o): return s.f < _tofrac(o)
    def __le__(s,o): return s.f <= _tofrac(o)
    def __gt__(s,o): return s.f > _tofrac(o)
    def __ge__(s,o): return s.f >= _tofrac(o)
    def __hash__(s): return hash(s.f)
    def __repr__(s): return f"Q({s.f})"
    def __bool__(s): return s.f != 0
