#!/bin/bash
# Nothing to build: the machinery is pure Python run with /venv/bin/python (numpy, scipy, river,
# scikit-learn, torch come with the repository's own environment).  Just make sure it imports.
cd "$(dirname "${BASH_SOURCE[0]}")" || exit 1
mkdir -p evidence replays
PYTHONPATH="${VF_REPO:-/repo}:$PWD" /venv/bin/python -W ignore -c "import vf.core, vf.qnum, vf.scriptrng, vf.stats, scipy.stats, numpy; print('vf ok')"
