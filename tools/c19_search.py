"""Offline search (not a check): finds (config, seed) scenarios in which a TreeStorage tree loses a subtree while the newest
point is routed to a leaf whose name already has a reservoir.  Run against the pinned tree to obtain witness scenarios."""
import sys, os, random, warnings, json
warnings.filterwarnings("ignore")
sys.path.insert(0, os.environ.get("VF_REPO", "/repo")); sys.path.insert(1, os.path.dirname(os.path.dirname(os.path.abspath(__file__))))
import numpy as np
from ixai.storage import TreeStorage
from ixai.storage.tree_storage import get_all_tree_paths
from vf.checks.c19 import gen_stream
lo, hi = int(sys.argv[1]), int(sys.argv[2])
for seed in range(lo, hi):
    r0 = random.Random(seed)
    md, gp, L = r0.choice([1, 2, 2, 3]), r0.choice([20, 50, 50, 100]), r0.choice([1, 3, 10])
    period, style = r0.choice([600, 800, 1000, 1500]), r0.choice(["abrupt", "abrupt", "gradual"])
    rnd = random.Random(seed); random.seed(seed); np.random.seed(seed)
    st = TreeStorage(cat_feature_names=["c1", "c2"], num_feature_names=["n1", "n2"], max_depth=md, leaf_reservoir_length=L, grace_period=gp, seed=seed % 1000)
    for i, x in enumerate(gen_stream(rnd, 6000, period, style)):
        st.update(x)
        hit = None
        for f in st.feature_names:
            paths = set(get_all_tree_paths(st(f)[0]._root))
            if not set(st.data_reservoirs[f].keys()) <= paths:
                hit = f
        if hit:
            print(json.dumps({"seed": seed, "md": md, "gp": gp, "L": L, "period": period, "style": style, "step": i, "feature": hit}), flush=True)
            break
