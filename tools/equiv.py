#!/usr/bin/env python3
"""Behaviour-preserving refactorings written by independent sub-agents: the checks must stay silent on them.
  tools/equiv.py ingest <dir> ...  validate (patch applies, repo tests pass, agent's demo passes on both trees), copy to equivalent/<id>/
  tools/equiv.py run [tier] [ids]  run every check whose anchor files the patch touches (plus the property's own check)
Any verdict other than 'held' is analysed by hand: either the refactoring is not behaviour-preserving after all
(recorded as such in meta.json) or a check is too strict (a false alarm to be corrected)."""
import concurrent.futures
import json
import os
import shutil
import subprocess
import sys

sys.path.insert(0, os.path.dirname(os.path.abspath(__file__)))
from seeds import HERE, PY, worktree, drop, run  # noqa: E402

DST = os.path.join(HERE, "equivalent")


def anchors():
    out = {}
    for line in open(os.path.join(HERE, "properties.jsonl")):
        d = json.loads(line)
        out[d["id"]] = set(d["anchors"]["files"])
    return out


def ingest_one(src):
    pid = os.path.basename(os.path.dirname(src.rstrip("/")))
    letter = os.path.basename(src.rstrip('/'))
    rename = dict(kv.split("=") for kv in os.environ.get("SEED_RENAME", "").split(",") if "=" in kv)
    sid = f"{pid}-{rename.get(letter, letter)}"
    patch, demo = os.path.join(src, "patch.diff"), os.path.join(src, "demo.py")
    if not (os.path.exists(patch) and os.path.exists(demo)):
        return sid, "missing files"
    d = worktree("eq" + sid)
    try:
        shutil.copy(demo, os.path.join(d, "_demo.py"))
        env = dict(os.environ, PYTHONPATH=d)
        rc0, _ = run([PY, "-W", "ignore", "_demo.py"], d, env=env)
        rc, out = run(["git", "apply", patch], d)
        if rc:
            return sid, "patch does not apply"
        files = subprocess.run(["git", "-C", d, "diff", "--name-only"], capture_output=True, text=True).stdout.split()
        rct, _ = run([PY, "-m", "pytest", "-q", "-p", "no:cacheprovider"], d)
        rc1, _ = run([PY, "-W", "ignore", "_demo.py"], d, env=env)
        ok = rc0 == 0 and rct == 0 and rc1 == 0 and files and all(f.startswith("ixai/") for f in files)
        if ok:
            dst = os.path.join(DST, sid)
            os.makedirs(dst, exist_ok=True)
            for f in ("patch.diff", "demo.py", "notes.md"):
                if os.path.exists(os.path.join(src, f)):
                    shutil.copy(os.path.join(src, f), os.path.join(dst, f))
            json.dump({"id": sid, "property": pid, "files": files, "origin": "independent sub-agent asked for a behaviour-preserving refactoring",
                       "validated": ["patch applies", "repo test suite passes with it", "agent's demo passes on both trees"]},
                      open(os.path.join(dst, "meta.json"), "w"), indent=1)
        return sid, "valid" if ok else f"INVALID demo0={rc0} tests={rct} demo1={rc1} files={files}"
    finally:
        drop(d)


def check_one(args):
    sid, tier = args
    dst = os.path.join(DST, sid)
    meta = json.load(open(os.path.join(dst, "meta.json")))
    anc = anchors()
    props = sorted({meta["property"]} | {p for p, fs in anc.items() if fs & set(meta["files"])})
    d = worktree("eq" + sid)
    evd = d + "_ev"
    res = {}
    try:
        rc, _ = run(["git", "apply", os.path.join(dst, "patch.diff")], d)
        if rc:
            return sid, {"error": "patch no longer applies"}
        for pid in props:
            env = dict(os.environ, VF_REPO=d, VF_EVIDENCE_DIR=evd, VF_SHARDS=os.environ.get("VF_SHARDS", "3"))
            rc, out = run([os.path.join(HERE, "check"), pid, tier], HERE, timeout=7200, env=env)
            mechs = sorted({l.strip().split("mechanism=")[1].split(": ")[0] for l in out.splitlines() if "mechanism=" in l})
            first = next((l.strip()[:300] for l in out.splitlines() if "mechanism=" in l), "")
            res[pid] = {"exit": rc, "verdict": {0: "held", 1: "ALARM", 2: "inconclusive"}.get(rc, str(rc)), "mechanisms": mechs[:6], "first": first}
        return sid, res
    finally:
        drop(d)
        shutil.rmtree(evd, ignore_errors=True)


def main():
    cmd = sys.argv[1]
    par = int(os.environ.get("VF_MUT_PAR", "4"))
    if cmd == "ingest":
        with concurrent.futures.ThreadPoolExecutor(par) as ex:
            for sid, status in ex.map(ingest_one, sys.argv[2:]):
                print(sid, status, flush=True)
    else:
        tier = "quick"
        ids = [a for a in sys.argv[2:] if a not in ("quick", "thorough")]
        if "thorough" in sys.argv[2:]:
            tier = "thorough"
        all_ids = sorted(x for x in os.listdir(DST) if os.path.exists(os.path.join(DST, x, "meta.json")))
        sel = [s for s in all_ids if not ids or s in ids or s.split("-")[0] in ids]
        with concurrent.futures.ThreadPoolExecutor(par) as ex:
            for sid, res in ex.map(check_one, [(s, tier) for s in sel]):
                mp = os.path.join(DST, sid, "meta.json")
                meta = json.load(open(mp))
                meta.setdefault("check_results", {})[tier] = res
                json.dump(meta, open(mp, "w"), indent=1)
                for pid, r in res.items() if "error" not in res else []:
                    print(f"{sid:8s} {pid} {tier} {r['verdict']:12s} {','.join(r['mechanisms'])[:120]}", flush=True)
                if "error" in res:
                    print(sid, res, flush=True)


if __name__ == "__main__":
    main()
