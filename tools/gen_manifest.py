#!/usr/bin/env python3
"""Regenerates MANIFEST.json from the table below and validates it (and any evidence files)."""
import json, os, sys, glob
HERE = os.path.dirname(os.path.dirname(os.path.abspath(__file__)))
T = {}   # id -> (category, technique, text, note, design_ref)
def reg(pid, cat, technique, text, note, ref):
    T[pid] = (cat, technique, text, note, ref)

EXACT = "runs the shipped code on exact rationals (Q) through recording proxies"
reg("C01", "exploration", "online invariant monitor after every call; exact-rational execution + float runs",
    "Held on every prefix of thousands of generated (configuration, stream) executions: the identity is evaluated with == on "
    "exact rationals flowing through the shipped explainer/trackers, and within a derived tolerance in floats. Runtime "
    "monitoring cannot quantify over all streams; exact arithmetic removes tolerance as a hiding place.",
    "Harness models/losses are deterministic pure functions; custom imputers honour the empty-subset clause; Python's Fraction is trusted.",
    "DESIGN.md 3/C01")
reg("C02", "exploration", "event-log reference monitor (closed-form running statistics) on every prefix; exact + float",
    "Every observable of IncrementalPFI is compared after every call with an independent closed-form reference recomputed from "
    "the logged model inputs (pristine model/loss twins), exactly in Q-mode.",
    "Reference in vf/explref.py + vf/refs.py is written from the statement only; unique feature values make decoding unambiguous.",
    "DESIGN.md 3/C02")
reg("C03", "exploration", "event-log reference monitor with the feature order read off the imputer calls; exact + float",
    "Importance, variances, marginal/model loss and marginal prediction of IncrementalSage compared on every prefix against an "
    "independent reference evaluated on the order actually drawn (decoded from callback traffic).",
    "Same trusted base as C02; imputers under test obey C06.", "DESIGN.md 3/C03")

def main():
    props = [json.loads(l) for l in open(os.path.join(HERE, "properties.jsonl"))]
    checks, na = [], []
    for p in props:
        pid = p["id"]
        if pid in T and os.path.exists(os.path.join(HERE, "vf", "checks", pid.lower() + ".py")):
            cat, tech, text, note, ref = T[pid]
            checks.append({
                "property_id": pid,
                "quick_cmd": f"./check {pid} quick",
                "thorough_cmd": f"./check {pid} thorough",
                "evidence_file": f"/verif/evidence/{pid}.json",
                "replay_cmd_template": f"./check {pid} --replay {{path}}",
                "engine": "vf",
                "level_claimed": {"category": cat, "text": text, "design_ref": ref},
                "level_note": note,
                "technique": tech})
        else:
            na.append({"property_id": pid, "reason": NA.get(pid, "check not built yet in this session (work in progress; see DESIGN.md section 3 for the planned monitor)")})
    m = {
        "version": 1,
        "setup_cmd": "./setup.sh",
        "hooks": {"guard": "IXAI_VERIF", "enable": "no source hooks: all instrumentation is applied from the harness (recording proxies, subclass wrappers, sys.monitoring); ./check exports IXAI_VERIF=1 for uniformity",
                  "baseline_off_cmd": "cd /repo && /venv/bin/python -m pytest -ra -q -p no:cacheprovider --timeout=900 --continue-on-collection-errors",
                  "source_commits": [], "add_only": True},
        "engines": [{"name": "vf", "path": "vf/", "serves_properties": [c["property_id"] for c in checks],
                     "kind_free_text": "runtime monitors over executions of the real library: recording proxies at the callback boundary, exact-rational number sanitizer, scripted global RNG with DFS over random outcomes, exact-binomial statistical oracles, failpoints, sys.monitoring anchor coverage"}],
        "checks": checks,
        "notes": "All checks run /venv/bin/python against the working tree in ${VF_REPO:-/repo}. Exit 0 held, 1 violation (VIOLATION line + replay file), 2 inconclusive (monitor not reached).",
        "not_applicable": na,
    }
    with open(os.path.join(HERE, "MANIFEST.json"), "w") as fh:
        json.dump(m, fh, indent=1); fh.write("\n")
    try:
        import jsonschema
        jsonschema.validate(m, json.load(open("/root/.vp/MANIFEST.schema.json")))
        es = json.load(open("/root/.vp/EVIDENCE.schema.json"))
        for f in sorted(glob.glob(os.path.join(HERE, "evidence", "*.json"))):
            jsonschema.validate(json.load(open(f)), es)
        print("MANIFEST valid;", len(checks), "checks,", len(na), "not_applicable; evidence files valid")
    except ImportError:
        print("jsonschema not available; not validated")
NA = {}
if __name__ == "__main__":
    main()
