#!/usr/bin/env python3
"""Regenerates MANIFEST.json from the table below and validates it (and any evidence files)."""
import json, os, sys, glob
HERE = os.path.dirname(os.path.dirname(os.path.abspath(__file__)))
T = {}   # id -> (category, technique, text, note, design_ref)
def reg(pid, cat, technique, text, note, ref):
    T[pid] = (cat, technique, text, note, ref)

EXACT = "runs the shipped code on exact rationals (Q) through recording proxies"
reg("C01", "exploration", "online invariant monitor after every call; exact-rational execution + float runs",
    "Held on every prefix of thousands of generated (configuration, stream) executions: the identity is evaluated with == on "
    "exact rationals flowing through the shipped explainer/trackers, and within a derived tolerance in floats. Runtime "
    "monitoring cannot quantify over all streams; exact arithmetic removes tolerance as a hiding place.",
    "Harness models/losses are deterministic pure functions; custom imputers honour the empty-subset clause; Python's Fraction is trusted.",
    "DESIGN.md 3/C01")
reg("C02", "exploration", "event-log reference monitor (closed-form running statistics) on every prefix; exact + float",
    "Every observable of IncrementalPFI is compared after every call with an independent closed-form reference recomputed from "
    "the logged model inputs (pristine model/loss twins), exactly in Q-mode.",
    "Reference in vf/explref.py + vf/refs.py is written from the statement only; unique feature values make decoding unambiguous.",
    "DESIGN.md 3/C02")
reg("C03", "exploration", "event-log reference monitor with the feature order read off the imputer calls; exact + float",
    "Importance, variances, marginal/model loss and marginal prediction of IncrementalSage compared on every prefix against an "
    "independent reference evaluated on the order actually drawn (decoded from callback traffic).",
    "Same trusted base as C02; imputers under test obey C06.", "DESIGN.md 3/C03")

STAT = "exact two-sided binomial cell tests over many independent executions, Bonferroni-split false-alarm budget 1e-9 per run"
reg("C07", "exploration", "structural invariant after every update; scripted global RNG with DFS over all random outcomes",
    "Invariant (sub-multiset by identity, count, target alignment, order) asserted after every update, on every outcome of the "
    "library's random draws for small capacities (scripted generator, exhaustive over integer draws and a float palette) and on long seeded streams.",
    "Exhaustive only for the bounded spaces listed in the evidence; float draws are enumerated over a palette incl. thresholds.", "DESIGN.md 3/C07")
reg("C08", "exploration", "statistical monitor: " + STAT,
    "Inclusion, k-subset, pair and arrival-bucket frequencies of many independent reservoirs tested against the uniform law; a deviation "
    "of the size written to the evidence (about 0.02 quick) is detected, smaller biases can be missed.",
    "Executions independent; reads only get_data(); false alarm probability <= 1e-9 per run.", "DESIGN.md 3/C08")
reg("C09", "exploration", "statistical monitor: " + STAT + "; deterministic p=1 / threshold clauses on scripted paths",
    "Retention law, acceptance probability and uniform slot replacement tested statistically; p=1 always-store and the acceptance "
    "threshold asserted deterministically with a scripted generator.",
    "As C08.", "DESIGN.md 3/C09")
reg("C10", "exploration", "shipped update code executed on exact rationals vs closed forms; line-path recorder",
    "Not the inductive proof named in the quantifier (outside runtime monitoring): the shipped recurrences run on exact rationals and are "
    "compared with == to the closed forms after every update of streams in 10 patterns up to length 256 (4096 thorough); linearity, range and hull clauses asserted; single line path recorded.",
    "Fraction arithmetic trusted; agreement is per tested length (Schwartz-Zippel argument in DESIGN).", "DESIGN.md 3/C10")
reg("C11", "exploration", "window reference monitor after every update",
    "mean/var/std compared after every update with exact statistics of the last min(n,k) values for lengths beyond 5k; construction on this NumPy included.",
    "No NaN inputs.", "DESIGN.md 3/C11")
reg("C12", "exploration", "per-key reference monitor over key-set histories x numeric types; NumPy FP-exception recorder; differential twins",
    "get(), N, key persistence, independence and the normalised view (sum 1, ratios, zero-sum -> zeros, no NaN/inf, no FP exception) checked after every update of random key-set histories over six value types and both base trackers.",
    "Finite inputs; exact comparison in Q mode, tolerance in float modes.", "DESIGN.md 3/C12")

reg("C04", "exploration", "statistical monitor: decoded draws + per-call outcome distribution vs exact enumeration; " + STAT,
    "Feature orders and background rows are decoded from model inputs and tested cell by cell; for tiny games the complete distribution of the "
    "per-call contribution vector (observed through the public importance_values with alpha=1, or the batch return value) is tested against "
    "the law obtained by enumerating all permutations and background tuples, and the mean against the exact Shapley value / expected loss increase.",
    "Independent draws; false alarm <= 1e-9 per run; bias below the minimal detectable deviation recorded in the evidence, or only for unexercised storage sizes, is not seen.",
    "DESIGN.md 3/C04")
reg("C05", "exploration", "event-log reference monitor (exact rationals) + offline trace checker for the interval schedule",
    "Efficiency and per-feature averages of BatchSage (both modes) and IntervalSage compared exactly against a reference rebuilt from the callback "
    "log; the interval schedule is checked as a trace property over random force/update/interval/storage-length sequences (zero evaluations and unchanged result on skipped calls, window contents on recomputes).",
    "Loss proxy is call-convention agnostic (C15 owns that); storage non-empty at recomputes.", "DESIGN.md 3/C05")
reg("C06", "exploration", "boundary monitor on every impute call with unique-id decoding; scripted-RNG enumeration of row choices for small storages",
    "Every impute call (direct and via explainers) is judged: inputs equal x outside the subset, imputed values are defaults / values of one (joint) "
    "or any (product) stored observation, n predictions equal to the pristine model, x/subset/storage unchanged by deep snapshot.",
    "Re-iterable subsets; unique feature values make sources unambiguous.", "DESIGN.md 3/C06")

reg("C13", "exploration", "fresh-instance differential monitor over interleaved call histories; recording subclass of the metric",
    "Every accepted river.metrics class is driven through 1-3 loss wrappers and an explainer sharing one metric object; after every call the value "
    "is compared with a fresh metric on that single pair and the shared metric's reported value with its initial value; what reached the metric (scalar vs dict) is recorded.",
    "Metric touched only through wrappers; 'fresh' = default-constructed instance of the same class.", "DESIGN.md 3/C13")
reg("C14", "exploration", "reference canonicaliser monitor over shape/dtype/key-order product; dispatch sweep over installed estimators",
    "Wrapper outputs for every output shape x dtype x batch size are compared with a canonicaliser written from the statement, key-order permutations "
    "and the array reaching the model are recorded, and validate_model_function is swept over every constructible sklearn / river class and torch modules.",
    "Batch outputs indexable by row; real-model agreement judged against the model's own one-row outputs.", "DESIGN.md 3/C14")
reg("C15", "exploration", "offline contract checker over callback event logs across the configuration product",
    "Construction from required arguments, plain positional loss, name types incl. mixed, evaluation budget, seen_samples, no mutation, storage update "
    "exactly once and last (or not at all), never-own-background and return value are checked on every call of generated histories.",
    "Names pairwise distinct; hash-equal NumPy keys accepted.", "DESIGN.md 3/C15")
reg("C16", "exploration", "value-type sweep with driven importance dictionaries + reachable-state monitor; NumPy FP-exception recorder",
    "Raw importances are driven to chosen dictionaries (alpha=1 + scripted loss) in six numeric types and the normalised views judged against exact "
    "quotients; variances and confidence bounds are checked against the formula on every state reached by PFI/SAGE streams.",
    "Non-empty dictionaries; quotients beyond float range excluded.", "DESIGN.md 3/C16")

reg("C17", "fault_enumeration", "failpoints at every callback invocation of every call; snapshot equality + resumed exact C01 identity",
    "For every explain_one call of generated streams the fault-free call's K callback invocations (model, loss, imputer, storage.update, storage.get_data) "
    "are counted and each position k<=K is re-executed from the identical pre-state with an injected exception; propagation, unchanged public estimates "
    "and the exact efficiency identity after resuming are asserted; random multi-fault schedules on top.",
    "Single-fault space complete per generated (config, stream); configs/streams sampled; explainers deep-copyable.", "DESIGN.md 3/C17")

reg("C18", "exploration", "bit-for-bit differential replay: in-process, after a junk preamble, and across fresh subprocesses",
    "Seeded scenarios over explainer x storage x imputer configurations are replayed and the bit patterns of all importance values, variances and "
    "storage / reservoir contents after every call compared; a junk preamble (other library objects, GC churn) and fresh processes test history-, "
    "address- and time-independence; scenarios whose digests do not depend on the seed are not counted.",
    "Same PYTHONHASHSEED; seeding precedes construction; TreeStorage given an explicit seed.", "DESIGN.md 3/C18")
reg("C19", "exploration", "structural invariant after every update with behaviourally named leaves (witness points); decoded TreeImputer traffic; recorded witness scenarios",
    "After every update of drifting streams the reservoir key sets are compared with the names of the current trees' leaves (named by routing synthesised "
    "witness points through river's traverse and the library's get_path_through_tree), capacities, identity of entries and newest-in-its-leaf asserted; "
    "TreeImputer inputs decoded for all flag combinations. The stale-reservoir clause only bites when a subtree is replaced while the newest point goes "
    "to an already-known leaf; such restructure events are counted and fixed witness scenarios guarantee they occur.",
    "Complete dicts, numeric-coded categories, explicit tree seed; river 0.26 tree API for leaf enumeration.", "DESIGN.md 3/C19")
reg("C20", "exploration", "differential execution of the shipped code in floats vs exact / 60-digit arithmetic under derived error bounds",
    "Long ill-conditioned float streams are pushed through the shipped trackers and compared at checkpoints with exact integer-scaled sums and a 60-digit "
    "smoothing evaluation under first-order error bounds (safety factor 4); explainer runs driven by such losses are executed twice from the same generator "
    "state in floats and in exact rationals; worst error/bound ratios are reported.",
    "Bounds from DESIGN C20; finite inputs.", "DESIGN.md 3/C20")

def main():
    props = [json.loads(l) for l in open(os.path.join(HERE, "properties.jsonl"))]
    checks, na = [], []
    for p in props:
        pid = p["id"]
        if pid in T and os.path.exists(os.path.join(HERE, "vf", "checks", pid.lower() + ".py")):
            cat, tech, text, note, ref = T[pid]
            checks.append({
                "property_id": pid,
                "quick_cmd": f"./check {pid} quick",
                "thorough_cmd": f"./check {pid} thorough",
                "evidence_file": f"/verif/evidence/{pid}.json",
                "replay_cmd_template": f"./check {pid} --replay {{path}}",
                "engine": "vf",
                "level_claimed": {"category": cat, "text": text, "design_ref": ref},
                "level_note": note,
                "technique": tech})
        else:
            na.append({"property_id": pid, "reason": NA.get(pid, "check not built yet in this session (work in progress; see DESIGN.md section 3 for the planned monitor)")})
    m = {
        "version": 1,
        "setup_cmd": "./setup.sh",
        "hooks": {"guard": "IXAI_VERIF", "enable": "no source hooks: all instrumentation is applied from the harness (recording proxies, subclass wrappers, sys.monitoring); ./check exports IXAI_VERIF=1 for uniformity",
                  "baseline_off_cmd": "cd /repo && /venv/bin/python -m pytest -ra -q -p no:cacheprovider --timeout=900 --continue-on-collection-errors",
                  "source_commits": [], "add_only": True},
        "engines": [{"name": "vf", "path": "vf/", "serves_properties": [c["property_id"] for c in checks],
                     "kind_free_text": "runtime monitors over executions of the real library: recording proxies at the callback boundary, exact-rational number sanitizer, scripted global RNG with DFS over random outcomes, exact-binomial statistical oracles, failpoints, sys.monitoring anchor coverage"}],
        "checks": checks,
        "notes": "All checks run /venv/bin/python against the working tree in ${VF_REPO:-/repo}. Exit 0 held, 1 violation (VIOLATION line + replay file), 2 inconclusive (monitor not reached).",
        "not_applicable": na,
    }
    with open(os.path.join(HERE, "MANIFEST.json"), "w") as fh:
        json.dump(m, fh, indent=1); fh.write("\n")
    try:
        import jsonschema
        jsonschema.validate(m, json.load(open("/root/.vp/MANIFEST.schema.json")))
        es = json.load(open("/root/.vp/EVIDENCE.schema.json"))
        for f in sorted(glob.glob(os.path.join(HERE, "evidence", "*.json"))):
            jsonschema.validate(json.load(open(f)), es)
        print("MANIFEST valid;", len(checks), "checks,", len(na), "not_applicable; evidence files valid")
    except ImportError:
        print("jsonschema not available; not validated")
NA = {}
if __name__ == "__main__":
    main()
