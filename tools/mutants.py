#!/usr/bin/env python3
"""Deliberate property-breaking changes (DESIGN 2.11): each entry = (name, property, file, old, new).
  tools/mutants.py materialize      -> writes mutants/<name>.patch (from a scratch worktree of /repo HEAD)
  tools/mutants.py run [tier] [names...] -> applies each patch in its own scratch worktree under /tmp, runs the property's
                                            check against it (VF_REPO, evidence redirected), prints caught / MISSED.
Scratch worktrees are removed as soon as each run finishes.  Nothing here is used by MANIFEST commands."""
import concurrent.futures
import os
import shutil
import subprocess
import sys
import tempfile

HERE = os.path.dirname(os.path.dirname(os.path.abspath(__file__)))
REPO = "/repo"
M = []


def m(name, pid, file, old, new):
    M.append((name, pid, file, old, new))


INC = "ixai/explainer/sage/incremental.py"
PFI = "ixai/explainer/pfi.py"
BASE = "ixai/explainer/base.py"
BATCH = "ixai/explainer/sage/batch.py"
INTERVAL = "ixai/explainer/sage/interval.py"
MARG = "ixai/imputer/marginal_imputer.py"
DEFI = "ixai/imputer/default_imputer.py"
UNI = "ixai/storage/uniform_reservoir_storage.py"
GEO = "ixai/storage/geometric_reservoir_storage.py"
IVS = "ixai/storage/interval_storage.py"
WEL = "ixai/utils/tracker/welford.py"
ES = "ixai/utils/tracker/exponential_smoothing.py"
SW = "ixai/utils/tracker/sliding_window.py"
MV = "ixai/utils/tracker/multi_value.py"
RIV = "ixai/utils/wrappers/river.py"
WB = "ixai/utils/wrappers/base.py"
SKW = "ixai/utils/wrappers/sklearn.py"
VM = "ixai/utils/validators/model.py"
TS = "ixai/storage/tree_storage.py"
TI = "ixai/imputer/tree_imputer.py"

# ---- C01
m("c01_chain_not_carried", "C01", INC, "                sample_loss = feature_loss\n", "                pass\n")
m("c01_offset_one_side", "C01", INC, "        return self._model_loss_tracker.get() + self._loss_direction\n",
  "        return self._model_loss_tracker.get()\n")
m("c01_marginal_tracker_other_value", "C01", INC, "            self._marginal_loss_tracker.update(marginal_loss)\n",
  "            self._marginal_loss_tracker.update(self._loss_function(y_i, y_i_pred) if len(y_i_pred) > 2 else marginal_loss)\n")
# ---- C02
m("c02_sign_flip", "C02", PFI, "pfi[feature] = avg_loss - original_loss", "pfi[feature] = original_loss - avg_loss")
m("c02_variance_pre_update", "C02", PFI,
  "            self._importance_trackers.update(pfi)\n            variances = {feature: (pfi[feature] - self.importance_values[feature]) ** 2\n                         for feature in self.feature_names}\n",
  "            variances = {feature: (pfi[feature] - self.importance_values.get(feature, 0)) ** 2\n                         for feature in self.feature_names}\n            self._importance_trackers.update(pfi)\n")
m("c02_first_sample_rule", "C02", PFI, "        if self.seen_samples >= 1:\n            if n_inner_samples is None:", "        if self.seen_samples >= 2:\n            if n_inner_samples is None:")
m("c02_smoothing_weight", "C02", ES, "self.tracked_value = (1 - self.alpha) * self.tracked_value + self.alpha * value_i",
  "self.tracked_value = self.alpha * self.tracked_value + (1 - self.alpha) * value_i")
# ---- C03
m("c03_average_losses_not_predictions", "C03", INC,
  "                y = _get_mean_model_output(predictions)\n                feature_loss = self._loss_function(y_i, y)\n",
  "                feature_loss = sum(self._loss_function(y_i, p) for p in predictions) / len(predictions)\n")
m("c03_marginal_prediction_not_normalised", "C03", INC, "marginal_prediction = marginal_prediction_tracker.get_normalized()",
  "marginal_prediction = marginal_prediction_tracker.get()")
m("c03_variance_stale_importance", "C03", INC,
  "            self._importance_trackers.update(marginal_contributions)\n            variances = {\n                feature: (marginal_contributions[feature] - self.importance_values[feature])**2\n                for feature in self.feature_names\n            }\n",
  "            variances = {\n                feature: (marginal_contributions[feature] - self.importance_values.get(feature, 0))**2\n                for feature in self.feature_names\n            }\n            self._importance_trackers.update(marginal_contributions)\n")
m("c03_mean_missing_label_skipped", "C03", BASE,
  "    mean_output = {label: sum([output.get(label, 0) for output in model_outputs]) / len(model_outputs)\n",
  "    mean_output = {label: sum([output[label] for output in model_outputs if label in output]) / max(1, len([o for o in model_outputs if label in o]))\n")
# ---- C04
m("c04_never_last_row", "C04", MARG, "        rand_idx = random.randrange(len(features))\n        sampled_instance", "        rand_idx = random.randrange(max(1, len(features) - 1))\n        sampled_instance")
m("c04_product_reuses_index", "C04", MARG,
  "        for feature_name in feature_subset:\n            rand_idx = random.randrange(len(features))\n",
  "        rand_idx = random.randrange(len(features))\n        for feature_name in feature_subset:\n")
m("c04_sorted_order_when_many", "C04", INC,
  "for i in np.random.permutation(len(self.feature_names))]", "for i in (np.random.permutation(len(self.feature_names)) if len(self.feature_names) < 3 else np.roll(np.arange(len(self.feature_names)), np.random.randint(len(self.feature_names))))]")
m("c04_original_prefix_rows", "C04", BATCH, "                    x_marginal = x_data[random.randint(0, n_data - 1)]\n",
  "                    x_marginal = x_data[random.randint(0, max(n - 1, 0))]\n")
# ---- C05
m("c05_divide_wrong_count", "C05", BATCH, "            n_data = n\n        self.importance_values = {feature: sage_value / n_data",
  "            n_data = n\n        self.importance_values = {feature: sage_value / max(n_data - (n_data > 3), 1)")
m("c05_schedule_drift", "C05", INTERVAL, "        if not force_explain and self.seen_samples % self.interval_length != 0:",
  "        if not force_explain and (self.seen_samples - 1) % self.interval_length != 0:")
m("c05_forced_shifts_rhythm", "C05", INTERVAL,
  "        x_data, y_data = self._storage.get_data()\n        super().explain_many(",
  "        if force_explain:\n            self.seen_samples = 0\n        x_data, y_data = self._storage.get_data()\n        super().explain_many(")
# ---- C06
m("c06_merge_order", "C06", MARG, "prediction = self.model_function({**x_i, **sampled_values})", "prediction = self.model_function({**sampled_values, **x_i})")
m("c06_default_one_prediction", "C06", DEFI, "        prediction = [prediction for _ in range(n_samples)]\n", "        prediction = [prediction for _ in range(min(n_samples, 2))]\n")
m("c06_write_into_stored_row", "C06", MARG, "        sampled_instance = features[rand_idx].copy()\n",
  "        sampled_instance = features[rand_idx]\n        sampled_instance.setdefault('_last_used', 0)\n")
# ---- C07
m("c07_target_other_slot", "C07", GEO, "                    self._storage_y[rand_idx] = y\n", "                    self._storage_y[random.randrange(self.size)] = y\n")
m("c07_uniform_append_past_capacity", "C07", UNI, "        if self.stored_samples <= self.size:\n", "        if self.stored_samples <= self.size + (self.size > 2 and not self.store_targets):\n")
m("c07_interval_targets_kept", "C07", IVS,
  "            self._storage_x.popleft()\n            self._storage_x.append(x)\n            if self.store_targets:\n                self._storage_y.popleft()\n                self._storage_y.append(y)\n",
  "            self._storage_x.popleft()\n            self._storage_x.append(x)\n            if self.store_targets:\n                self._storage_y.append(y)\n                if len(self._storage_y) > self.size + 1:\n                    self._storage_y.popleft()\n")
# ---- C08
m("c08_stale_weight_skip", "C08", UNI,
  "                self._algo_wt *= np.exp(np.log(random.random()) / self.size)\n                self._algo_l_counter += (np.floor(\n                    np.log(random.random()) / np.log(1 - self._algo_wt)) + 1)\n",
  "                self._algo_l_counter += (np.floor(\n                    np.log(random.random()) / np.log(1 - self._algo_wt)) + 1)\n                self._algo_wt *= np.exp(np.log(random.random()) / self.size)\n")
m("c08_slot_off_by_one", "C08", UNI, "                rand_idx = random.randrange(self.size)\n", "                rand_idx = random.randrange(max(1, self.size - 1))\n")
m("c08_weight_not_updated_large_k", "C08", UNI, "                self._algo_wt *= np.exp(np.log(random.random()) / self.size)\n                self._algo_l_counter",
  "                if self.size < 8:\n                    self._algo_wt *= np.exp(np.log(random.random()) / self.size)\n                self._algo_l_counter")
# ---- C09
m("c09_slot_off_by_one", "C09", GEO, "                rand_idx = random.randrange(self.size)\n", "                rand_idx = random.randrange(max(1, self.size - 1))\n")
m("c09_default_p", "C09", GEO, "            self.constant_probability = 1 / self.size\n", "            self.constant_probability = 1 / (self.size + 1)\n")
m("c09_strict_threshold_squared", "C09", GEO, "            if random_float <= self.constant_probability:", "            if random_float <= self.constant_probability ** (1 + (self.size > 4)):")
# ---- C10
m("c10_sample_variance", "C10", WEL, "        return self.sum_squares / max(self.N, 1)\n", "        return self.sum_squares / max(self.N - 1, 1)\n")
m("c10_abs_difference", "C10", WEL, "        self.sum_squares += difference_1 * difference_2\n", "        self.sum_squares += abs(difference_1) * abs(difference_2) if value_i >= 0 else difference_1 * difference_1\n")
m("c10_N_not_counted", "C10", ES, "        self.N += 1\n        return self\n", "        self.N += 1 if value_i else 0\n        return self\n")
# ---- C11
m("c11_slot_not_advanced", "C11", SW, "            self.sliding_window[self.window_k] = value_i\n            self.window_k += 1\n        return self",
  "            self.sliding_window[self.window_k] = value_i\n        return self")
m("c11_nan_handling_dropped", "C11", SW, "return float(np.nanvar(self.sliding_window, axis=0))", "return float(np.nanvar(self.sliding_window, axis=0, ddof=1 if self.k > 4 else 0))")
# ---- C12
m("c12_shared_base_tracker", "C12", MV, "                self.tracked_value[key] = copy.deepcopy(self._base_tracker)\n", "                self.tracked_value[key] = self._base_tracker if len(self.tracked_value) > 2 else copy.deepcopy(self._base_tracker)\n")
m("c12_no_zero_fill", "C12", MV, "            self.tracked_value[key].update(0)  # is zero the right value to add?\n", "            pass\n")
m("c12_zero_sum_python_only", "C12", MV, "        if values_sum == 0:  # NumPy scalars", "        if values_sum == 0 and isinstance(values_sum, (int, float)):  # NumPy scalars")
# ---- C13
m("c13_no_revert_for_dict_metrics", "C13", RIV, "        self._river_metric.revert(y_true=y_true, y_pred=y_prediction)\n",
  "        if not self._dict_input_metric:\n            self._river_metric.revert(y_true=y_true, y_pred=y_prediction)\n")
m("c13_sign_not_flipped", "C13", RIV, "            self._sign = -1.\n", "            self._sign = -1. if not self._river_metric.__class__.__name__.startswith('R') else 1.\n")
m("c13_validator_residue", "C13", "ixai/utils/validators/loss.py", "        _ = river_metric.revert(y_true=0, y_pred=0)\n        validated_loss_function = RiverMetricToLossFunction(river_metric=river_metric, dict_input_metric=False)\n",
  "        validated_loss_function = RiverMetricToLossFunction(river_metric=river_metric, dict_input_metric=False)\n")
# ---- C14
m("c14_size_one_label", "C14", WB, "            if isinstance(y_prediction, np.ndarray) and y_prediction.size == 1:\n", "            if isinstance(y_prediction, np.ndarray) and y_prediction.size == 1 and y_prediction.ndim < 2:\n")
m("c14_feature_order_ignored_batch", "C14", WB, "                x_input_i = [x_dicts[i][feature] for feature in self._feature_names]\n", "                x_input_i = [x_dicts[i][feature] for feature in x_dicts[i] if feature in self._feature_names]\n")
m("c14_onehot_forgets_labels", "C14", RIV, "            output = {label: 0. for label in self._seen_labels}\n", "            output = {label: 0. for label in list(self._seen_labels)[-3:]}\n")
m("c14_dispatch_rewraps", "C14", VM, "    if isinstance(model_function, Wrapper):\n        return model_function", "    if isinstance(model_function, RiverWrapper):\n        return RiverWrapper(prediction_function=model_function)\n    if isinstance(model_function, Wrapper):\n        return model_function")
# ---- C15
m("c15_storage_first", "C15", PFI, "        if self.seen_samples >= 1:\n            if n_inner_samples is None:",
  "        if update_storage and self.seen_samples >= 3:\n            self._storage.update(x_i, y_i)\n            update_storage = False\n        if self.seen_samples >= 1:\n            if n_inner_samples is None:")
m("c15_names_sorted", "C15", "ixai/explainer/base.py", "        self.feature_names = feature_names\n", "        self.feature_names = feature_names\n        if all(isinstance(f, str) for f in feature_names) and len(feature_names) > 3:\n            feature_names.sort()\n")
m("c15_keyword_loss", "C15", BATCH, "loss_previous = self._loss_function(y_i, marginal_prediction)\n            features_not_in_s", "loss_previous = self._loss_function(y_true=y_i, y_prediction=marginal_prediction)\n            features_not_in_s")
m("c15_n_inner_override_ignored", "C15", INC, "            if n_inner_samples is None:\n                n_inner_samples = self.n_inner_samples\n            permutation_chain",
  "            if n_inner_samples is None or n_inner_samples > self.n_inner_samples + 1:\n                n_inner_samples = self.n_inner_samples\n            permutation_chain")
# ---- C16
m("c16_abs_sum", "C16", BASE, "            factor = sum(importance_values_list)\n", "            factor = sum(abs(v) for v in importance_values_list)\n")
m("c16_zero_only_python", "C16", BASE, "            if factor == 0:  # NumPy scalars", "            if factor == 0 and not hasattr(factor, 'dtype'):  # NumPy scalars")
m("c16_delta_in_numerator", "C16", BASE, "                (1 / math.sqrt(delta)) * math.sqrt(self.variances[feature_name]) *", "                math.sqrt(delta) * math.sqrt(self.variances[feature_name]) *")
# ---- C17
m("c17_commit_model_loss_early", "C17", INC, "            model_loss = self._loss_function(y_i, y_i_pred)\n", "            model_loss = self._loss_function(y_i, y_i_pred)\n            self._model_loss_tracker.update(model_loss)\n            self._model_loss_tracker.N -= 1\n            self._model_loss_tracker.tracked_value -= 0\n" )
m("c17_pfi_storage_last", "C17", PFI,
  "        if update_storage:  # before the estimates are committed: a failing storage leaves them untouched\n            self._storage.update(x_i, y_i)\n        if self.seen_samples >= 1:\n            self._importance_trackers.update(pfi)\n            variances = {feature: (pfi[feature] - self.importance_values[feature]) ** 2\n                         for feature in self.feature_names}\n            self._variance_trackers.update(variances)\n",
  "        if self.seen_samples >= 1:\n            self._importance_trackers.update(pfi)\n            variances = {feature: (pfi[feature] - self.importance_values[feature]) ** 2\n                         for feature in self.feature_names}\n            self._variance_trackers.update(variances)\n        if update_storage:\n            self._storage.update(x_i, y_i)\n")
m("c17_swallow_imputer_error", "C17", INC, "                y = _get_mean_model_output(predictions)\n", "                y = _get_mean_model_output(predictions)\n                self.marginal_prediction = marginal_prediction\n")
# ---- C18
m("c18_private_rng", "C18", MARG, "        rand_idx = random.randrange(len(features))\n        sampled_instance", "        rand_idx = random.Random().randrange(len(features)) if len(features) > 50 else random.randrange(len(features))\n        sampled_instance")
m("c18_tree_seed_dropped", "C18", TS, "                grace_period=grace_period, seed=seed)\n                for num_feature in self.num_feature_names})", "                grace_period=grace_period)\n                for num_feature in self.num_feature_names})")
m("c18_id_dependent_order", "C18", INC, "            features_not_in_s = set(self.feature_names)\n", "            features_not_in_s = set(self.feature_names)\n            if id(self) % 64 == 0 and self.seen_samples % 5 == 0:\n                np.random.random()\n")
# ---- C19
m("c19_no_purge", "C19", TS, "        self._delete_outdated_reservoirs(feature_name, root_node)\n        data_reservoir[leaf_id].update(x)\n", "        data_reservoir[leaf_id].update(x)\n")
m("c19_default_probability", "C19", TS, "store_targets=False, constant_probability=1.0)", "store_targets=False, constant_probability=0.9)")
m("c19_other_leaf_reservoir", "C19", TI, "            storage = data_reservoir[leaf_id]\n", "            storage = data_reservoir[leaf_id] if len(data_reservoir) < 3 else data_reservoir[sorted(data_reservoir)[0]]\n")
# ---- C20
m("c20_textbook_variance", "C20", WEL,
  "        self.N += 1\n        difference_1 = value_i - self.tracked_value\n        self.tracked_value += difference_1 / self.N\n        difference_2 = value_i - self.tracked_value\n        self.sum_squares += difference_1 * difference_2\n",
  "        self.N += 1\n        self._s1 = getattr(self, '_s1', 0) + value_i\n        self._s2 = getattr(self, '_s2', 0) + value_i * value_i\n        self.tracked_value = self._s1 / self.N\n        self.sum_squares = self._s2 - self.N * self.tracked_value * self.tracked_value\n")
m("c20_float32_accumulator", "C20", ES, "self.tracked_value = (1 - self.alpha) * self.tracked_value + self.alpha * value_i",
  "self.tracked_value = (1 - self.alpha) * self.tracked_value + self.alpha * value_i\n        if isinstance(self.tracked_value, float):\n            import numpy as _np\n            self.tracked_value = float(_np.float32(self.tracked_value))")


def worktree(tag):
    d = tempfile.mkdtemp(prefix=f"vfmut_{tag}_", dir="/tmp")
    os.rmdir(d)
    for attempt in range(8):        # (git takes a lock on the repository: retry when several runners add worktrees at once)
        r = subprocess.run(["git", "-C", REPO, "worktree", "add", "--detach", d, "HEAD"], capture_output=True)
        if r.returncode == 0:
            return d
        import time
        time.sleep(1.5 + attempt)
    raise RuntimeError("git worktree add failed: " + r.stderr.decode()[-200:])


def drop(d):
    subprocess.run(["git", "-C", REPO, "worktree", "remove", "--force", d], capture_output=True)
    shutil.rmtree(d, ignore_errors=True)


def apply_edit(d, file, old, new):
    p = os.path.join(d, file)
    s = open(p).read()
    if s.count(old) < 1:
        raise SystemExit(f"pattern not found in {file}: {old[:60]!r}")
    open(p, "w").write(s.replace(old, new, 1))


def materialize():
    os.makedirs(os.path.join(HERE, "mutants"), exist_ok=True)
    d = worktree("mat")
    try:
        for name, pid, file, old, new in M:
            apply_edit(d, file, old, new)
            diff = subprocess.run(["git", "-C", d, "diff"], capture_output=True, text=True).stdout
            open(os.path.join(HERE, "mutants", f"{name}.patch"), "w").write(f"# property {pid}\n" + diff)
            subprocess.run(["git", "-C", d, "checkout", "--", "."], check=True)
        print(len(M), "patches written")
    finally:
        drop(d)


def run_one(args):
    name, pid, tier, with_tests = args
    d = worktree(name)
    evd = tempfile.mkdtemp(prefix="vfev_", dir="/tmp")
    try:
        patch = os.path.join(HERE, "mutants", f"{name}.patch")
        r = subprocess.run(["git", "-C", d, "apply", patch], capture_output=True, text=True)
        if r.returncode:
            return name, pid, "PATCH-FAILED", r.stderr[-200:]
        tests = ""
        if with_tests:
            t = subprocess.run(["/venv/bin/python", "-m", "pytest", "-q", "-p", "no:cacheprovider", "-x"], cwd=d, capture_output=True, text=True)
            tests = "tests-pass" if t.returncode == 0 else "TESTS-FAIL"
        env = dict(os.environ, VF_REPO=d, VF_EVIDENCE_DIR=evd, VF_SHARDS=os.environ.get("VF_SHARDS", "4"))
        c = subprocess.run([os.path.join(HERE, "check"), pid, tier], capture_output=True, text=True, env=env, cwd=HERE)
        mech = sorted({l.split("mechanism=")[1].split(":")[0] + ":" + l.split("mechanism=")[1].split(":")[1][:0] for l in c.stdout.splitlines() if "mechanism=" in l})
        mechs = sorted({l.strip().split("mechanism=")[1].split(": ")[0] for l in c.stdout.splitlines() if "mechanism=" in l})
        verdict = {0: "MISSED", 1: "caught", 2: "INCONCLUSIVE"}.get(c.returncode, f"exit{c.returncode}")
        return name, pid, verdict, tests + " " + ",".join(mechs)[:150]
    finally:
        drop(d)
        shutil.rmtree(evd, ignore_errors=True)


def main():
    if len(sys.argv) > 1 and sys.argv[1] == "materialize":
        return materialize()
    tier = "quick"
    names = []
    with_tests = False
    for a in sys.argv[2:]:
        if a in ("quick", "thorough"):
            tier = a
        elif a == "--tests":
            with_tests = True
        else:
            names.append(a)
    jobs = [(n, p, tier, with_tests) for n, p, *_ in M if not names or n in names or p in names]
    with concurrent.futures.ThreadPoolExecutor(int(os.environ.get("VF_MUT_PAR", "4"))) as ex:
        res = list(ex.map(run_one, jobs))
    import json
    rp = os.path.join(HERE, "mutants", "results.json")
    try:
        allres = json.load(open(rp))
    except Exception:
        allres = {}
    for name, pid, verdict, info in res:
        allres[name] = {"property": pid, "tier": tier, "verdict": verdict, "info": info.strip()}
    json.dump(allres, open(rp, "w"), indent=1, sort_keys=True)
    miss = 0
    for name, pid, verdict, info in res:
        print(f"{pid} {name:42s} {verdict:13s} {info}")
        miss += verdict != "caught"
    print(f"{len(res) - miss}/{len(res)} caught")
    return 1 if miss else 0


if __name__ == "__main__":
    sys.exit(main())
