#!/bin/bash
# tools/run_all.sh [tier] : runs every check on the real tree, prints one line per check, non-zero exit if any is not held
cd "$(dirname "$0")/.." || exit 2
tier="${1:-quick}"; rc=0
for i in 01 02 03 04 05 06 07 08 09 10 11 12 13 14 15 16 17 18 19 20; do
  out=$(./check C$i $tier 2>&1 | grep -v conda); code=$?
  echo "$out" | grep -E "^(C$i |VIOLATION|KNOWN-FINDING|  INCONCLUSIVE)" | cut -c1-260
  echo "$out" | grep -q "^C$i .*: held" || rc=1
done
exit $rc
