#!/usr/bin/env python3
"""Validation and bookkeeping of seeded changes written by independent sub-agents.
  tools/seeds.py ingest <dir> ...   validate /tmp/seed_out/Cxx/{A,B} (patch applies, tests pass, demo passes without and fails
                                    with the change) in a scratch worktree; valid ones are copied to seeded/<id>/ with meta.json
  tools/seeds.py run [tier] [ids]   run the property's check against every kept seeded change (scratch worktree, VF_REPO)
Scratch worktrees live under /tmp and are removed immediately."""
import concurrent.futures
import json
import os
import shutil
import subprocess
import sys
import tempfile

HERE = os.path.dirname(os.path.dirname(os.path.abspath(__file__)))
REPO = "/repo"
PY = "/venv/bin/python"


def worktree(tag):
    d = tempfile.mkdtemp(prefix=f"vfseed_{tag}_", dir="/tmp")
    os.rmdir(d)
    for attempt in range(8):        # (git takes a lock on the repository: retry when several runners add worktrees at once)
        r = subprocess.run(["git", "-C", REPO, "worktree", "add", "--detach", d, "HEAD"], capture_output=True)
        if r.returncode == 0:
            return d
        import time
        time.sleep(1.5 + attempt)
    raise RuntimeError("git worktree add failed: " + r.stderr.decode()[-200:])


def drop(d):
    subprocess.run(["git", "-C", REPO, "worktree", "remove", "--force", d], capture_output=True)
    shutil.rmtree(d, ignore_errors=True)


def run(cmd, cwd, timeout=1800, env=None):
    try:
        p = subprocess.run(cmd, cwd=cwd, capture_output=True, text=True, timeout=timeout, env=env)
        return p.returncode, (p.stdout + p.stderr)
    except subprocess.TimeoutExpired:
        return 124, "TIMEOUT"


def ingest_one(src):
    pid = os.path.basename(os.path.dirname(src.rstrip("/")))
    var = os.path.basename(src.rstrip("/"))
    var = dict(kv.split("=") for kv in os.environ.get("SEED_RENAME", "").split(",") if kv).get(var, var)
    sid = f"{pid}-{var}"
    patch, demo = os.path.join(src, "patch.diff"), os.path.join(src, "demo.py")
    if not (os.path.exists(patch) and os.path.exists(demo)):
        return sid, "missing files", None
    d = worktree(sid)
    try:
        shutil.copy(demo, os.path.join(d, "_demo.py"))
        env = dict(os.environ, PYTHONPATH=d)
        rc0, out0 = run([PY, "-W", "ignore", "_demo.py"], d, env=env)
        rc, out = run(["git", "apply", patch], d)
        if rc:
            return sid, "patch does not apply: " + out[-200:], None
        files = subprocess.run(["git", "-C", d, "diff", "--name-only"], capture_output=True, text=True).stdout.split()
        if not files or any(not f.startswith("ixai/") for f in files):
            return sid, f"patch touches {files}", None
        rct, outt = run([PY, "-m", "pytest", "-q", "-p", "no:cacheprovider"], d)
        rc1, out1 = run([PY, "-W", "ignore", "_demo.py"], d, env=env)
        ok = rc0 == 0 and rct == 0 and rc1 != 0
        meta = {"id": sid, "property": pid, "files": files,
                "demo_unchanged_tree": {"exit": rc0, "tail": out0.strip().splitlines()[-1:]},
                "tests_with_change": {"exit": rct, "tail": outt.strip().splitlines()[-1:]},
                "demo_with_change": {"exit": rc1, "tail": out1.strip().splitlines()[-3:]},
                "valid": ok}
        if ok:
            dst = os.path.join(HERE, "seeded", sid)
            os.makedirs(dst, exist_ok=True)
            shutil.copy(patch, os.path.join(dst, "patch.diff"))
            shutil.copy(demo, os.path.join(dst, "demo.py"))
            notes = os.path.join(src, "notes.md")
            if os.path.exists(notes):
                shutil.copy(notes, os.path.join(dst, "notes.md"))
                meta["needs_to_manifest"] = "see notes.md (written by the sub-agent that produced the change)"
            meta["what_was_run"] = ["demo.py on unchanged tree (exit 0)", "git apply patch.diff", "repo test suite (pytest, all pass)",
                                    "demo.py with the change (non-zero exit)"]
            meta["origin"] = "independent sub-agent given only the property text and a scratch worktree"
            with open(os.path.join(dst, "meta.json"), "w") as fh:
                json.dump(meta, fh, indent=1)
        return sid, "valid" if ok else f"INVALID demo0={rc0} tests={rct} demo1={rc1}", meta
    finally:
        drop(d)


def check_one(args):
    sid, tier, props = args
    dst = os.path.join(HERE, "seeded", sid)
    meta = json.load(open(os.path.join(dst, "meta.json")))
    d = worktree(sid)
    evd = tempfile.mkdtemp(prefix="vfev_", dir="/tmp")
    try:
        rc, out = run(["git", "apply", os.path.join(dst, "patch.diff")], d)
        if rc:
            return sid, {"error": "patch no longer applies"}
        res = {}
        for pid in props or [meta["property"]]:
            env = dict(os.environ, VF_REPO=d, VF_EVIDENCE_DIR=evd, VF_SHARDS=os.environ.get("VF_SHARDS", "4"))
            rc, out = run([os.path.join(HERE, "check"), pid, tier], HERE, timeout=7200, env=env)
            mechs = sorted({l.strip().split("mechanism=")[1].split(": ")[0] for l in out.splitlines() if "mechanism=" in l})
            res[pid] = {"exit": rc, "verdict": {0: "MISSED", 1: "caught", 2: "inconclusive"}.get(rc, str(rc)), "mechanisms": mechs[:8]}
        return sid, res
    finally:
        drop(d)
        shutil.rmtree(evd, ignore_errors=True)


def main():
    cmd = sys.argv[1]
    par = int(os.environ.get("VF_MUT_PAR", "4"))
    if cmd == "ingest":
        with concurrent.futures.ThreadPoolExecutor(par) as ex:
            for sid, status, meta in ex.map(ingest_one, sys.argv[2:]):
                print(sid, status)
    elif cmd == "run":
        tier, ids, props = "quick", [], []
        for a in sys.argv[2:]:
            if a in ("quick", "thorough"):
                tier = a
            elif a.startswith("--prop="):
                props = a[7:].split(",")
            else:
                ids.append(a)
        all_ids = sorted(x for x in os.listdir(os.path.join(HERE, "seeded")) if os.path.exists(os.path.join(HERE, "seeded", x, "meta.json")))
        sel = [s for s in all_ids if not ids or s in ids or s.split("-")[0] in ids]
        miss = 0
        with concurrent.futures.ThreadPoolExecutor(par) as ex:
            for sid, res in ex.map(check_one, [(s, tier, props) for s in sel]):
                for pid, r in res.items() if "error" not in res else []:
                    print(f"{sid:8s} {pid} {tier:8s} {r['verdict']:12s} {','.join(r['mechanisms'])[:140]}")
                    miss += r["verdict"] != "caught"
                    mp = os.path.join(HERE, "seeded", sid, "meta.json")
                    meta = json.load(open(mp))
                    meta.setdefault("check_results", {})[f"{pid}:{tier}"] = r
                    json.dump(meta, open(mp, "w"), indent=1)
                if "error" in res:
                    print(sid, res)
        print("missed:", miss)


if __name__ == "__main__":
    main()
