"""Runtime-monitoring machinery for the 20 iXAI properties (see ../DESIGN.md)."""
