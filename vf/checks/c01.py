"""C01 - incremental SAGE efficiency: sum(importance_values) == explained_loss after every call."""
import random

from ..harness import Scenario, gen_cfg, make_long, make_phase
from ..riverlike import RealScenario, gen_real_cfg
from ..probes import InjectedFault
from ..core import jsonable, config_guard

SHARDS = {"quick": 3, "thorough": 16}
TIMEOUT = {"quick": 1800, "thorough": 7200}
N_CFG = {"quick": 500, "thorough": 2500}     # per shard


def check_identity(run, sc, where, replay):
    e = sc.e
    iv = e.importance_values
    tot = 0
    for v in iv.values():
        tot = tot + v
    exp = e.explained_loss
    if sc.cfg["exact"]:
        good = (tot == exp)
    else:
        scale = max(1.0, sc.loss.max_abs)
        good = abs(float(tot) - float(exp)) <= 1e-9 * (sc.cfg["d"] + 2) * scale
    run.ok(kind="real-model" if sc.cfg.get("real") else "exact" if sc.cfg["exact"] else "float")
    if not good:
        run.violation("efficiency-identity", f"{where}: sum(importance)={tot!r} explained_loss={exp!r}", replay)
    return good, tot, exp


def tree_configs(run, rnd, n_cfg):
    """IncrementalSage on TreeStorage + TreeImputer (float mode) with a model that reads the dict by position."""
    import numpy as np
    from ixai.explainer import IncrementalSage
    from ixai.storage import TreeStorage
    from ixai.imputer import TreeImputer
    from ..probes import Models, Losses
    for c in range(n_cfg):
        seed = rnd.randrange(2 ** 31)
        random.seed(seed)
        np.random.seed(seed)
        names = ["c1", "n1", "n2", "c2"][:rnd.choice([2, 3, 4])]
        cats = [n for n in names if n.startswith("c")]
        nums = [n for n in names if n.startswith("n")]
        model = Models(rnd.choice(["positional", "positional", "linear"]), names, exact=False)
        loss = Losses("sq", exact=False)
        st = TreeStorage(cat_feature_names=cats, num_feature_names=nums, max_depth=3, leaf_reservoir_length=5,
                         grace_period=10, seed=seed % 100)
        use_storage, direct = rnd.random() < .5, rnd.random() < .5
        imp = TreeImputer(model, st, direct_predict_numeric=direct, use_storage=use_storage)
        dyn = rnd.random() < .5
        e = IncrementalSage(model, loss, names, smoothing_alpha=rnd.choice([0.05, 0.5]), storage=st, imputer=imp,
                            n_inner_samples=rnd.choice([1, 2, 3]), dynamic_setting=dyn)
        srnd = random.Random(seed)
        cfg = {"storage": "TreeStorage", "imputer": f"TreeImputer(use_storage={use_storage}, direct_predict_numeric={direct})",
               "names": names, "model": model.kind, "dynamic": dyn, "seed": seed}
        run.count("tree-configs")
        for t in range(40):
            x = {n: (float(srnd.randrange(3)) if n.startswith("c") else srnd.gauss(0, 1) + (2.0 if t % 7 < 3 else 0.0)) for n in names}
            y = srnd.gauss(0, 1)
            try:
                e.explain_one(x, y)
            except Exception as ex:
                run.ok(kind="raised")
                run.violation("explain-raises", f"tree cfg {cfg} step {t}: {type(ex).__name__}: {ex}", {"cfg": cfg, "step": t})
                break
            if t == 0:
                continue
            tot = sum(e.importance_values.values())
            exp = e.explained_loss
            run.ok(kind="tree-float")
            if abs(float(tot) - float(exp)) > 1e-9 * (len(names) + 2) * max(1.0, loss.max_abs):
                run.violation("efficiency-identity", f"tree cfg {cfg} step {t}: sum(importance)={tot!r} explained_loss={exp!r}", {"cfg": cfg, "step": t})
                break
            if exp != 0:
                run.nontriv(("c01-tree", run.shard[0], c, t))


class river_classifier_view:
    """A real river classifier behind a recording boundary.  The type name contains "river", so the library auto-wraps its
    bound `predict_one` / `predict_proba_one` exactly like those of the river estimator itself."""

    def __init__(self, est):
        self.est, self.raw = est, []

    def predict_one(self, x):
        r = self.est.predict_one(x)
        self.raw.append(r)
        return r

    def predict_proba_one(self, x):
        r = self.est.predict_proba_one(x)
        self.raw.append(r)
        return r


LABEL_POOL = ["ash", "birch", "cedar", "douglas", "elm", "fir"]


def _label_estimator(kind, seed):
    from river import naive_bayes, tree, neighbors, linear_model, multiclass, preprocessing, compose
    if kind == "NB":
        return naive_bayes.GaussianNB()
    if kind == "HT":
        return tree.HoeffdingTreeClassifier(grace_period=15)
    if kind == "KNN":
        return neighbors.KNNClassifier(n_neighbors=3)
    if kind == "Softmax":
        return compose.Pipeline(preprocessing.StandardScaler(), linear_model.SoftmaxRegression())
    return compose.Pipeline(preprocessing.StandardScaler(), multiclass.OneVsRestClassifier(linear_model.LogisticRegression()))


def _onehot(labels, hot):
    out = {l: 0. for l in labels}
    out[hot] = 1.
    return out


def label_configs(run, rnd, n_cfg):
    """Multi-class river classifiers (3+ STRING labels, skewed frequencies, label noise) handed to the explainer the way the
    documentation shows it: the bare bound `model.predict_one` / `model.predict_proba_one` (auto-wrapped by the library) or an
    explicit RiverWrapper; the explainer builds its own default imputer and / or storage in most configurations; losses read the
    prediction DICT (Brier over its keys, river's CrossEntropy metric, a plain cross-entropy function), so which labels a
    prediction reports matters.  Test-then-train (the model learns the observation after it was explained) or frozen.

    Premise of the statement: a deterministic model.  The library's RiverWrapper reports a label prediction one-hot over the
    labels it has seen so far; when a label is predicted for the very first time in the MIDDLE of a call (for an imputed
    instance) the wrapped model function answers the same x_i differently at the start and at the end of that call.  Such a
    call is outside the premise when the loss can see the difference (decided from the raw predictions, the target and the
    loss alone, never from the explainer's numbers); the stream ends there (counter `label-streams-ended-new-label-mid-call`)."""
    import numpy as np
    from ixai.explainer import IncrementalSage
    from ixai.imputer import MarginalImputer
    from ixai.storage import GeometricReservoirStorage, UniformReservoirStorage
    from ixai.utils.wrappers import RiverWrapper
    from ..riverlike import LossTwin
    for c in range(n_cfg):
        seed = rnd.randrange(2 ** 31)
        random.seed(seed)
        np.random.seed(seed % (2 ** 32))
        srnd = random.Random(seed)
        k = rnd.choice([3, 3, 4, 5])
        labels = rnd.sample(LABEL_POOL, k)
        d = rnd.choice([2, 3, 4, 5])
        names = [f"f{j}" for j in range(d)]
        centre = {l: [srnd.gauss(0, 2.5) for _ in names] for l in labels}
        weights = [1.0, 0.8] + [rnd.choice([0.5, 0.15, 0.05]) for _ in range(k - 2)]
        noise = rnd.choice([0.0, 0.15, 0.3])
        kind = rnd.choice(["NB", "NB", "HT", "KNN", "Softmax", "OvR"])
        est = _label_estimator(kind, seed)
        method = "predict_one" if rnd.random() < 0.7 else "predict_proba_one"
        wrap = "auto" if rnd.random() < 0.6 else "explicit"
        imputer_kind = rnd.choice(["library-default", "library-default", "library-default", "joint", "product"])
        if imputer_kind != "library-default" and method == "predict_one":
            wrap = "explicit"       # one wrapper object shared by the explainer and the user's imputer
        storage_kind = rnd.choice(["library-default", "library-default", "geometric", "uniform"])
        if imputer_kind != "library-default" and storage_kind == "library-default":
            storage_kind = "geometric"
        learning = rnd.random() < 0.6
        loss_kind = rnd.choice(["brier", "brier", "CrossEntropy", "ce-function"])
        dyn = rnd.random() < 0.5
        alpha = rnd.choice([0.001, 0.01, 0.1, 0.5])
        n_inner = rnd.choice([1, 2, 3])

        def draw():
            y = srnd.choices(labels, weights)[0]
            x = {n: centre[y][j] + srnd.gauss(0, 1) for j, n in enumerate(names)}
            if srnd.random() < noise:
                y = srnd.choice(labels)
            return x, y

        for l in labels:        # the model knows every class before the explanation starts
            est.learn_one({n: centre[l][j] for j, n in enumerate(names)}, l)
        for _ in range(rnd.choice([5, 20, 60])):
            est.learn_one(*draw())
        view = river_classifier_view(est)
        fn = getattr(view, method)
        model_fn = RiverWrapper(fn) if wrap == "explicit" else fn
        twin = LossTwin("CrossEntropy" if loss_kind == "ce-function" else loss_kind)
        if loss_kind == "ce-function":
            import math
            loss_arg = lambda y_true, y_prediction: -math.log(min(max(y_prediction.get(y_true, 0.), 1e-15), 1 - 1e-15)) \
                if y_true in y_prediction else 0.
        else:
            loss_arg = twin.as_argument()
        size = rnd.choice([3, 10, 50])
        storage = {"library-default": None, "geometric": GeometricReservoirStorage(size=size, store_targets=False),
                   "uniform": UniformReservoirStorage(size=size, store_targets=False)}[storage_kind]
        imputer = None if imputer_kind == "library-default" else MarginalImputer(model_fn, imputer_kind, storage)
        cfg = {"estimator": kind, "labels": labels, "weights": weights, "noise": noise, "d": d, "method": method, "wrap": wrap,
               "imputer": imputer_kind, "storage": storage_kind, "size": size, "learning": learning, "loss": loss_kind,
               "dynamic": dyn, "alpha": alpha, "n_inner": n_inner, "seed": seed}
        try:
            e = IncrementalSage(model_fn, loss_arg, names, smoothing_alpha=alpha, storage=storage, imputer=imputer,
                                n_inner_samples=n_inner, dynamic_setting=dyn)
        except Exception as ex:  # construction problems belong to C15
            run.other_error(f"C15:construct:{type(ex).__name__}")
            continue
        run.count("label-model-configs")
        if method == "predict_one" and wrap == "auto":
            run.count("label-model-configs-bare-predict_one")
            if imputer_kind == "library-default":
                run.count("label-model-configs-bare-predict_one-default-imputer")
        seen = set()                # labels the raw predict_one has returned in earlier calls
        steps = rnd.choice([30, 50, 80])
        pending = None
        for t in range(steps):
            if pending is not None and learning:
                est.learn_one(*pending)
            x, y = draw()
            pending = (x, y)
            first = est.predict_one(x) if method == "predict_one" else None
            view.raw = []
            try:
                e.explain_one(x, y)
            except Exception as ex:
                run.ok(kind="raised")
                run.violation("explain-raises", f"label cfg {cfg} step {t}: {type(ex).__name__}: {ex}", {"cfg": cfg, "step": t})
                break
            if t == 0:
                continue
            if method == "predict_one":
                before = seen | {first}
                seen = before | set(view.raw)
                if seen != before:
                    run.count("label-first-predicted-for-an-imputed-instance")
                    if twin.one(y, _onehot(before, first)) != twin.one(y, _onehot(seen, first)):
                        run.count("label-streams-ended-new-label-mid-call")
                        break
            tot = sum(e.importance_values.values())
            exp = e.explained_loss
            run.ok(kind="label-model")
            if method == "predict_one" and y in seen and first != y:
                run.count("label-evals-target-label-known-but-not-predicted")
            if abs(float(tot) - float(exp)) > 1e-9 * (d + 2) * 40.0:
                run.violation("efficiency-identity", f"label cfg {cfg} step {t}: sum(importance)={tot!r} explained_loss={exp!r}",
                              {"cfg": cfg, "step": t})
                break
            if exp != 0:
                run.nontriv(("c01-label", run.shard[0], c, t))


def main(run):
    run.level = "exploration"
    run.rule = ("seeded configurations from the cfg product incl. TreeStorage/TreeImputer with position-reading models (mode x alpha x n_inner x d x storage x imputer x "
                "name type x model x loss x loss_bigger_is_better, per-call n_inner override / update_storage=False; every 15th configuration a REAL river model that keeps learning (river streams, metrics, wrappers); every 5th configuration with callbacks that fail at random positions, caught by the caller, stream continued); "
                "the identity is evaluated after EVERY explain_one (all prefixes), == on exact rationals (Q-mode) "
                "and |diff|<=1e-9*(d+2)*max|loss| in float mode; a (config,step) is non-trivial when "
                "explained_loss != 0 and >= 2 distinct non-zero importance values; distinct by (cfg, step, values)")
    run.assumptions = ["custom imputers honour C06's empty-subset clause",
                       "float mode uses continuous losses only (hash losses only in exact mode)"]
    run.require("ixai/explainer/sage/incremental.py:IncrementalSage.explain_one",
                "ixai/utils/tracker/multi_value.py:MultiValueTracker.update")
    rnd = random.Random(run.shard_seed)
    tree_configs(run, random.Random(run.shard_seed + 17), 16 if run.tier == "quick" else 40)
    label_configs(run, random.Random(run.shard_seed + 29), 24 if run.tier == "quick" else 80)
    run.require_count("real-model-configs", "long-stream-configs", "late-informative-model-configs", "label-model-configs",
                      "label-model-configs-bare-predict_one-default-imputer", "label-first-predicted-for-an-imputed-instance",
                      "label-evals-target-label-known-but-not-predicted")
    for i in range(N_CFG[run.tier]):
        exact = (i % 3 != 2)
        if i % 15 == 14:     # a real river model that keeps learning, river streams and metrics, the library's own wrappers
            cfg = gen_real_cfg(rnd, "sage")
            run.count("real-model-configs")
        else:
            cfg = gen_cfg(rnd, "sage", exact, allow_discontinuous=True)
            if i in (40, 41) or (run.tier == "thorough" and i % 1500 == 42):      # thousands of calls on one explainer (exact and float)
                make_long(cfg, rnd, 4200 if i == 41 else rnd.choice([1100, 1300, (5000 if run.tier == "thorough" else 2100) if not cfg["exact"] else 1200]))
                run.count("long-stream-configs")
            if i in (50, 51, 53, 56) or (run.tier == "thorough" and i % 300 == 50):      # model that becomes informative after ~40 observations
                make_phase(cfg, rnd, dyn=(i == 51))
                run.count("late-informative-model-configs")
        seed = rnd.randrange(2 ** 31)
        try:
            sc = (RealScenario if cfg.get("real") else Scenario)(cfg, seed)
        except Exception as ex:  # construction problems belong to C15
            run.other_error(f"C15:construct:{type(ex).__name__}")
            continue
        run.count("configs")
        run.see("cfg-shape", (cfg["dyn"], cfg["d"], cfg["n_inner"], cfg["storage"][0], cfg["imputer"], cfg["names"],
                              cfg["model"], cfg["loss"], cfg["lbib"]))
        with config_guard(run):
            hist = []
            faulty = (i % 5 == 4)        # every 5th configuration: callbacks fail now and then, the caller catches and continues
            for t in range(cfg["steps"]):
                if cfg.get("checkpoint") and t == min(4, cfg["steps"] - 1) and not cfg.get("real"):
                    import copy
                    old_sc, sc = sc, copy.deepcopy(sc)      # checkpoint: the stream continues on a deep copy; the original is used for something else
                    try:
                        old_sc.step()
                    except Exception:
                        pass
                    run.count("checkpointed-streams")
                kw = sc.call_kwargs()
                if faulty and t >= 1 and sc.rnd.random() < 0.35:
                    sc.clock.fail_at_next = sc.rnd.randrange(1, 3 + 2 * cfg["d"] * cfg["n_inner"])
                try:
                    x, y, ret, log = sc.step(**kw)
                except InjectedFault:
                    run.count("injected-faults-survived")
                    if sc.e.seen_samples > 1 or sc.e.importance_values:
                        check_identity(run, sc, f"cfg#{i} after a failed call at step {t}", {"cfg": cfg, "seed": seed, "step": t, "fault": True})
                    continue
                except Exception as ex:
                    run.ok(kind="raised")
                    if any(ev[0] == "fault" for ev in sc.clock.log):
                        # the injected callback fault surfaced as ANOTHER exception: that is C17's subject (the same exception
                        # propagates), not a statement about efficiency; the stream is abandoned
                        run.other_error("C17:exception-not-propagated")
                        break
                    run.violation("explain-raises", f"cfg#{i} step {t}: explain_one raised {type(ex).__name__}: {ex} on a legal configuration",
                                  {"cfg": cfg, "seed": seed, "step": t, "kwargs": kw})
                    break
                if any(ev[0] == "fault" for ev in log):
                    run.other_error("C17:exception-swallowed")      # a callback raised and explain_one returned normally: C17's subject
                    break
                hist.append((x, y, kw))
                replay = {"cfg": cfg, "seed": seed, "step": t, "kwargs": kw}
                good, tot, exp = check_identity(run, sc, f"cfg#{i} step {t}", replay)
                vals = {v for v in sc.e.importance_values.values() if v != 0}
                if exp != 0 and len(vals) >= 2:
                    run.nontriv(("c01", run.shard[0], i, t))
                if exp != 0 and len(vals) >= 2 and t >= 3 and len(run.samples) < 3 and i % 7 == 0:
                    run.sample({"cfg": cfg, "seed": seed, "steps": t + 1, "sum_importance": tot, "explained_loss": exp,
                                "importance": dict(sc.e.importance_values)})
