"""C01 - incremental SAGE efficiency: sum(importance_values) == explained_loss after every call."""
import random

from ..harness import Scenario, gen_cfg, make_long, make_phase
from ..riverlike import RealScenario, gen_real_cfg
from ..probes import InjectedFault
from ..core import jsonable, config_guard

SHARDS = {"quick": 3, "thorough": 16}
TIMEOUT = {"quick": 1800, "thorough": 7200}
N_CFG = {"quick": 500, "thorough": 2500}     # per shard


def check_identity(run, sc, where, replay):
    e = sc.e
    iv = e.importance_values
    tot = 0
    for v in iv.values():
        tot = tot + v
    exp = e.explained_loss
    if sc.cfg["exact"]:
        good = (tot == exp)
    else:
        scale = max(1.0, sc.loss.max_abs)
        good = abs(float(tot) - float(exp)) <= 1e-9 * (sc.cfg["d"] + 2) * scale
    run.ok(kind="real-model" if sc.cfg.get("real") else "exact" if sc.cfg["exact"] else "float")
    if not good:
        run.violation("efficiency-identity", f"{where}: sum(importance)={tot!r} explained_loss={exp!r}", replay)
    return good, tot, exp


def tree_configs(run, rnd, n_cfg):
    """IncrementalSage on TreeStorage + TreeImputer (float mode) with a model that reads the dict by position."""
    import numpy as np
    from ixai.explainer import IncrementalSage
    from ixai.storage import TreeStorage
    from ixai.imputer import TreeImputer
    from ..probes import Models, Losses
    for c in range(n_cfg):
        seed = rnd.randrange(2 ** 31)
        random.seed(seed)
        np.random.seed(seed)
        names = ["c1", "n1", "n2", "c2"][:rnd.choice([2, 3, 4])]
        cats = [n for n in names if n.startswith("c")]
        nums = [n for n in names if n.startswith("n")]
        model = Models(rnd.choice(["positional", "positional", "linear"]), names, exact=False)
        loss = Losses("sq", exact=False)
        st = TreeStorage(cat_feature_names=cats, num_feature_names=nums, max_depth=3, leaf_reservoir_length=5,
                         grace_period=10, seed=seed % 100)
        use_storage, direct = rnd.random() < .5, rnd.random() < .5
        imp = TreeImputer(model, st, direct_predict_numeric=direct, use_storage=use_storage)
        dyn = rnd.random() < .5
        e = IncrementalSage(model, loss, names, smoothing_alpha=rnd.choice([0.05, 0.5]), storage=st, imputer=imp,
                            n_inner_samples=rnd.choice([1, 2, 3]), dynamic_setting=dyn)
        srnd = random.Random(seed)
        cfg = {"storage": "TreeStorage", "imputer": f"TreeImputer(use_storage={use_storage}, direct_predict_numeric={direct})",
               "names": names, "model": model.kind, "dynamic": dyn, "seed": seed}
        run.count("tree-configs")
        for t in range(40):
            x = {n: (float(srnd.randrange(3)) if n.startswith("c") else srnd.gauss(0, 1) + (2.0 if t % 7 < 3 else 0.0)) for n in names}
            y = srnd.gauss(0, 1)
            try:
                e.explain_one(x, y)
            except Exception as ex:
                run.ok(kind="raised")
                run.violation("explain-raises", f"tree cfg {cfg} step {t}: {type(ex).__name__}: {ex}", {"cfg": cfg, "step": t})
                break
            if t == 0:
                continue
            tot = sum(e.importance_values.values())
            exp = e.explained_loss
            run.ok(kind="tree-float")
            if abs(float(tot) - float(exp)) > 1e-9 * (len(names) + 2) * max(1.0, loss.max_abs):
                run.violation("efficiency-identity", f"tree cfg {cfg} step {t}: sum(importance)={tot!r} explained_loss={exp!r}", {"cfg": cfg, "step": t})
                break
            if exp != 0:
                run.nontriv(("c01-tree", run.shard[0], c, t))


def main(run):
    run.level = "exploration"
    run.rule = ("seeded configurations from the cfg product incl. TreeStorage/TreeImputer with position-reading models (mode x alpha x n_inner x d x storage x imputer x "
                "name type x model x loss x loss_bigger_is_better, per-call n_inner override / update_storage=False; every 15th configuration a REAL river model that keeps learning (river streams, metrics, wrappers); every 5th configuration with callbacks that fail at random positions, caught by the caller, stream continued); "
                "the identity is evaluated after EVERY explain_one (all prefixes), == on exact rationals (Q-mode) "
                "and |diff|<=1e-9*(d+2)*max|loss| in float mode; a (config,step) is non-trivial when "
                "explained_loss != 0 and >= 2 distinct non-zero importance values; distinct by (cfg, step, values)")
    run.assumptions = ["custom imputers honour C06's empty-subset clause",
                       "float mode uses continuous losses only (hash losses only in exact mode)"]
    run.require("ixai/explainer/sage/incremental.py:IncrementalSage.explain_one",
                "ixai/utils/tracker/multi_value.py:MultiValueTracker.update")
    rnd = random.Random(run.shard_seed)
    tree_configs(run, random.Random(run.shard_seed + 17), 16 if run.tier == "quick" else 40)
    run.require_count("real-model-configs", "long-stream-configs", "late-informative-model-configs")
    for i in range(N_CFG[run.tier]):
        exact = (i % 3 != 2)
        if i % 15 == 14:     # a real river model that keeps learning, river streams and metrics, the library's own wrappers
            cfg = gen_real_cfg(rnd, "sage")
            run.count("real-model-configs")
        else:
            cfg = gen_cfg(rnd, "sage", exact, allow_discontinuous=True)
            if i in (40, 41) or (run.tier == "thorough" and i % 1500 == 42):      # thousands of calls on one explainer (exact and float)
                make_long(cfg, rnd, 4200 if i == 41 else rnd.choice([1100, 1300, (5000 if run.tier == "thorough" else 2100) if not cfg["exact"] else 1200]))
                run.count("long-stream-configs")
            if i in (50, 51, 53, 56) or (run.tier == "thorough" and i % 300 == 50):      # model that becomes informative after ~40 observations
                make_phase(cfg, rnd, dyn=(i == 51))
                run.count("late-informative-model-configs")
        seed = rnd.randrange(2 ** 31)
        try:
            sc = (RealScenario if cfg.get("real") else Scenario)(cfg, seed)
        except Exception as ex:  # construction problems belong to C15
            run.other_error(f"C15:construct:{type(ex).__name__}")
            continue
        run.count("configs")
        run.see("cfg-shape", (cfg["dyn"], cfg["d"], cfg["n_inner"], cfg["storage"][0], cfg["imputer"], cfg["names"],
                              cfg["model"], cfg["loss"], cfg["lbib"]))
        with config_guard(run):
            hist = []
            faulty = (i % 5 == 4)        # every 5th configuration: callbacks fail now and then, the caller catches and continues
            for t in range(cfg["steps"]):
                if cfg.get("checkpoint") and t == min(4, cfg["steps"] - 1) and not cfg.get("real"):
                    import copy
                    old_sc, sc = sc, copy.deepcopy(sc)      # checkpoint: the stream continues on a deep copy; the original is used for something else
                    try:
                        old_sc.step()
                    except Exception:
                        pass
                    run.count("checkpointed-streams")
                kw = sc.call_kwargs()
                if faulty and t >= 1 and sc.rnd.random() < 0.35:
                    sc.clock.fail_at_next = sc.rnd.randrange(1, 3 + 2 * cfg["d"] * cfg["n_inner"])
                try:
                    x, y, ret, log = sc.step(**kw)
                except InjectedFault:
                    run.count("injected-faults-survived")
                    if sc.e.seen_samples > 1 or sc.e.importance_values:
                        check_identity(run, sc, f"cfg#{i} after a failed call at step {t}", {"cfg": cfg, "seed": seed, "step": t, "fault": True})
                    continue
                except Exception as ex:
                    run.ok(kind="raised")
                    if any(ev[0] == "fault" for ev in sc.clock.log):
                        # the injected callback fault surfaced as ANOTHER exception: that is C17's subject (the same exception
                        # propagates), not a statement about efficiency; the stream is abandoned
                        run.other_error("C17:exception-not-propagated")
                        break
                    run.violation("explain-raises", f"cfg#{i} step {t}: explain_one raised {type(ex).__name__}: {ex} on a legal configuration",
                                  {"cfg": cfg, "seed": seed, "step": t, "kwargs": kw})
                    break
                if any(ev[0] == "fault" for ev in log):
                    run.other_error("C17:exception-swallowed")      # a callback raised and explain_one returned normally: C17's subject
                    break
                hist.append((x, y, kw))
                replay = {"cfg": cfg, "seed": seed, "step": t, "kwargs": kw}
                good, tot, exp = check_identity(run, sc, f"cfg#{i} step {t}", replay)
                vals = {v for v in sc.e.importance_values.values() if v != 0}
                if exp != 0 and len(vals) >= 2:
                    run.nontriv(("c01", run.shard[0], i, t))
                if exp != 0 and len(vals) >= 2 and t >= 3 and len(run.samples) < 3 and i % 7 == 0:
                    run.sample({"cfg": cfg, "seed": seed, "steps": t + 1, "sum_importance": tot, "explained_loss": exp,
                                "importance": dict(sc.e.importance_values)})
