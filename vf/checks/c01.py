"""C01 - incremental SAGE efficiency: sum(importance_values) == explained_loss after every call."""
import random

from ..harness import Scenario, gen_cfg
from ..probes import InjectedFault
from ..core import jsonable

SHARDS = {"quick": 1, "thorough": 16}
N_CFG = {"quick": 1500, "thorough": 6000}     # per shard


def check_identity(run, sc, where, replay):
    e = sc.e
    iv = e.importance_values
    tot = 0
    for v in iv.values():
        tot = tot + v
    exp = e.explained_loss
    if sc.cfg["exact"]:
        good = (tot == exp)
    else:
        scale = max(1.0, sc.loss.max_abs)
        good = abs(float(tot) - float(exp)) <= 1e-9 * (sc.cfg["d"] + 2) * scale
    run.ok(kind="exact" if sc.cfg["exact"] else "float")
    if not good:
        run.violation("efficiency-identity", f"{where}: sum(importance)={tot!r} explained_loss={exp!r}", replay)
    return good, tot, exp


def main(run):
    run.level = "exploration"
    run.rule = ("seeded configurations from the cfg product (mode x alpha x n_inner x d x storage x imputer x "
                "name type x model x loss x loss_bigger_is_better, per-call n_inner override / update_storage=False; every 5th configuration with callbacks that fail at random positions, caught by the caller, stream continued); "
                "the identity is evaluated after EVERY explain_one (all prefixes), == on exact rationals (Q-mode) "
                "and |diff|<=1e-9*(d+2)*max|loss| in float mode; a (config,step) is non-trivial when "
                "explained_loss != 0 and >= 2 distinct non-zero importance values; distinct by (cfg, step, values)")
    run.assumptions = ["custom imputers honour C06's empty-subset clause",
                       "float mode uses continuous losses only (hash losses only in exact mode)"]
    run.require("ixai/explainer/sage/incremental.py:IncrementalSage.explain_one",
                "ixai/utils/tracker/multi_value.py:MultiValueTracker.update")
    rnd = random.Random(run.shard_seed)
    for i in range(N_CFG[run.tier]):
        exact = (i % 3 != 2)
        cfg = gen_cfg(rnd, "sage", exact)
        seed = rnd.randrange(2 ** 31)
        try:
            sc = Scenario(cfg, seed)
        except Exception as ex:  # construction problems belong to C15
            run.other_error(f"C15:construct:{type(ex).__name__}")
            continue
        run.count("configs")
        run.see("cfg-shape", (cfg["dyn"], cfg["d"], cfg["n_inner"], cfg["storage"][0], cfg["imputer"], cfg["names"],
                              cfg["model"], cfg["loss"], cfg["lbib"]))
        hist = []
        faulty = (i % 5 == 4)        # every 5th configuration: callbacks fail now and then, the caller catches and continues
        for t in range(cfg["steps"]):
            kw = sc.call_kwargs()
            if faulty and t >= 1 and sc.rnd.random() < 0.35:
                sc.clock.fail_at_next = sc.rnd.randrange(1, 3 + 2 * cfg["d"] * cfg["n_inner"])
            try:
                x, y, ret, log = sc.step(**kw)
            except InjectedFault:
                run.count("injected-faults-survived")
                if sc.e.seen_samples > 1 or sc.e.importance_values:
                    check_identity(run, sc, f"cfg#{i} after a failed call at step {t}", {"cfg": cfg, "seed": seed, "step": t, "fault": True})
                continue
            except Exception as ex:
                run.ok(kind="raised")
                run.violation("explain-raises", f"cfg#{i} step {t}: explain_one raised {type(ex).__name__}: {ex} on a legal configuration",
                              {"cfg": cfg, "seed": seed, "step": t, "kwargs": kw})
                break
            hist.append((x, y, kw))
            replay = {"cfg": cfg, "seed": seed, "step": t, "kwargs": kw}
            good, tot, exp = check_identity(run, sc, f"cfg#{i} step {t}", replay)
            vals = {v for v in sc.e.importance_values.values() if v != 0}
            if exp != 0 and len(vals) >= 2:
                run.nontriv(("c01", run.shard[0], i, t))
            if exp != 0 and len(vals) >= 2 and t >= 3 and len(run.samples) < 3 and i % 7 == 0:
                run.sample({"cfg": cfg, "seed": seed, "steps": t + 1, "sum_importance": tot, "explained_loss": exp,
                            "importance": dict(sc.e.importance_values)})
