"""C02 - incremental PFI = running statistic of (mean imputed loss - original loss)."""
import random

from ..harness import Scenario, gen_cfg, make_long, make_phase, ref_alpha
from ..riverlike import RealScenario, gen_real_cfg
from ..probes import InjectedFault
from ..core import config_guard
from ..explref import PfiRef, Mismatch, compare

SHARDS = {"quick": 3, "thorough": 16}
TIMEOUT = {"quick": 1800, "thorough": 7200}
N_CFG = {"quick": 300, "thorough": 2000}


def run_config(run, cfg, seed, tag):
    try:
        sc = (RealScenario if cfg.get("real") else Scenario)(cfg, seed)
    except Exception as ex:
        run.other_error(f"C15:construct:{type(ex).__name__}")
        return
    run.count("configs")
    ref = PfiRef(sc.names, cfg["dyn"], ref_alpha(cfg), sc.model, sc.loss, fast=cfg["steps"] > 400)
    if cfg.get("real"):
        run.count("real-model-configs")
        ref.unique = False
    for t in range(cfg["steps"]):
        if cfg.get("checkpoint") and t == min(4, cfg["steps"] - 1) and not cfg.get("real"):
            import copy
            old_sc = sc
            sc = copy.deepcopy(sc)            # checkpoint: the stream continues on a deep copy; the original is used for something else
            ref.model, ref.loss = sc.model, sc.loss
            run.ok(kind="checkpoint")
            s_old, s_new = old_sc.snapshot(), sc.snapshot()
            if not (s_old == s_new):           # everything the copy reports BEFORE its next call equals what the original reports
                bad_keys = [k_ for k_ in s_old if not (s_old[k_] == s_new.get(k_))]
                run.violation("observable:" + (bad_keys[0] if bad_keys else "keys"), f"{tag} step {t}: a deep copy of the explainer reports {bad_keys} "
                              f"{ {k_: s_new.get(k_) for k_ in bad_keys} !r}, the original { {k_: s_old[k_] for k_ in bad_keys} !r}",
                              {"cfg": cfg, "seed": seed, "step": t, "checkpoint": True})
                return
            import pickle
            try:
                pickle.dumps((sc.model, sc.loss))
                harness_picklable = True
            except Exception:
                harness_picklable = False
            if harness_picklable and not cfg.get("hoisted"):
                try:
                    e2 = pickle.loads(pickle.dumps(sc.e))
                    snap2 = {"importance": dict(e2.importance_values), "variances": dict(e2.variances)}
                    if hasattr(e2, "marginal_loss"):
                        snap2.update(marginal_loss=e2.marginal_loss, model_loss=e2.model_loss, marginal_prediction=dict(e2.marginal_prediction))
                except Exception as ex:
                    snap2 = None
                    run.count("explainer-not-picklable:" + type(ex).__name__)
                if snap2 is not None and not (snap2 == s_new):
                    bad_keys = [k_ for k_ in s_new if not (s_new[k_] == snap2.get(k_))]
                    run.violation("observable:" + (bad_keys[0] if bad_keys else "keys"), f"{tag} step {t}: an explainer restored from pickle reports "
                                  f"{ {k_: snap2.get(k_) for k_ in bad_keys} !r}, the pickled one { {k_: s_new[k_] for k_ in bad_keys} !r}",
                                  {"cfg": cfg, "seed": seed, "step": t, "checkpoint": "pickle"})
                    return
            try:
                old_sc.step()
            except Exception:
                pass
            run.count("checkpointed-streams")
        kw = sc.call_kwargs()
        replay = {"cfg": cfg, "seed": seed, "step": t, "kwargs": kw}
        if seed % 6 == 0 and t >= 1 and sc.rnd.random() < 0.3:       # a callback fails somewhere in this call; the caller carries on
            sc.clock.fail_at_next = sc.rnd.randrange(1, 3 + 2 * cfg["d"] * cfg["n_inner"])
        try:
            x, y, ret, log = sc.step(**kw)
        except InjectedFault:
            run.count("injected-faults-survived")       # a failed call changes nothing: the reference simply skips it
            continue
        except Exception as ex:
            run.ok(kind="raised")
            if any(ev[0] == "fault" for ev in sc.clock.log):
                # the injected callback fault surfaced as ANOTHER exception: C17's subject (the same exception propagates)
                run.other_error("C17:exception-not-propagated")
                return
            run.violation("explain-raises", f"{tag} step {t}: explain_one raised {type(ex).__name__}: {ex} on a legal configuration", replay)
            return
        if any(ev[0] == "fault" for ev in log):
            run.other_error("C17:exception-swallowed")      # a callback raised and explain_one returned normally: C17's subject
            return
        if t == 0:
            run.ok(kind="first-call")
            stored = [e for e in log if e[0] == "storage.update"]
            if [e for e in log if e[0] in ("model", "loss")] or ret != {} or (sc.storage is not None and len(stored) != (0 if kw.get("update_storage") is False else 1)):
                run.violation("first-observation", f"{tag}: first call must only seed the storage; log={log!r} ret={ret!r}", replay)
            continue
        n_used = kw.get("n_inner_samples") or sc.n_inner_now
        try:
            exp = ref.call(x, y, log, n_used)
        except Mismatch as m:
            run.ok(kind="decode")
            run.violation("decode:" + m.what, f"{tag} step {t}: {m}", replay)
            return
        obs = sc.snapshot()
        scale = max(1.0, sc.loss.max_abs)
        bad = list(compare(obs, exp, cfg["exact"], scale))
        run.ok(len(exp), kind="real-model" if cfg.get("real") else "exact" if cfg["exact"] else "float")
        for key, o, e in bad:
            run.violation("observable:" + key, f"{tag} step {t}: {key} observed {o!r} expected {e!r}", replay)
        if not (ret == obs["importance"]):
            run.violation("return-value", f"{tag} step {t}: returned dict differs from importance_values", replay)
        if cfg["model"] in ("ignore", "constant"):
            ign = sc.names[1:] if cfg["model"] == "ignore" else sc.names
            for n in ign:
                v = obs["importance"][n]
                run.ok(kind="ignored-feature")
                okz = (v == 0) if cfg["exact"] else abs(float(v)) <= 1e-12 * scale
                if not okz:
                    run.violation("ignored-feature-nonzero", f"{tag} step {t}: feature {n!r} is ignored by the model, importance {v!r}", replay)
        if bad:
            return
        nz = {v for v in ref.last_contrib.values() if v != 0}
        if len(nz) >= 2:
            run.nontriv(("c02", tag, t))
            if len(run.samples) < 3 and t >= 2:
                run.sample({"cfg": cfg, "seed": seed, "step": t, "x": x, "y": y, "contributions": ref.last_contrib,
                            "importance_values": obs["importance"], "variances": obs["variances"]})


def main(run):
    run.rule = ("seeded configurations from the cfg product; per call the inner predictions are grouped by imputer "
                "call (or decoded from model inputs for the library default imputer), the reference recomputes "
                "contribution = mean(loss of imputed predictions) - original loss with pristine twins and the closed-form "
                "running statistic of contributions and of squared deviations from the UPDATED estimate; compared on "
                "every prefix, also for real river models that keep learning between calls (every 12th configuration) (== exact mode, 1e-9*scale float mode); ignored features must have importance 0; "
                "non-trivial = call with >= 2 distinct non-zero contributions, distinct by (config, step)")
    run.assumptions = ["model and loss are deterministic pure functions", "float mode uses continuous losses only"]
    run.require("ixai/explainer/pfi.py:IncrementalPFI.explain_one")
    run.require_count("real-model-configs", "long-stream-configs", "late-informative-model-configs")
    rnd = random.Random(run.shard_seed)
    for i in range(N_CFG[run.tier]):
        cfg = gen_cfg(rnd, "pfi", exact=(i % 3 != 2))
        if i in (40, 41) or (run.tier == "thorough" and i % 1500 == 42):      # thousands of calls on one explainer (exact and float)
            make_long(cfg, rnd, 4200 if i == 41 else rnd.choice([1100, 1300, (5000 if run.tier == "thorough" else 2100) if not cfg["exact"] else 1200]))
            run.count("long-stream-configs")
        if i in (50, 51, 53, 56) or (run.tier == "thorough" and i % 300 == 50):      # model that becomes informative after ~40 observations
            make_phase(cfg, rnd, dyn=(i == 51))
            run.count("late-informative-model-configs")
        seed_ = rnd.randrange(2 ** 31)
        with config_guard(run):
            run_config(run, cfg, seed_, f"s{run.shard[0]}c{i}")
        if i % 12 == 11:       # a real river model that keeps learning, river streams, river metrics, the library's wrappers
            rcfg = gen_real_cfg(rnd, "pfi", need_decode=True)
            seed_ = rnd.randrange(2 ** 31)
            with config_guard(run):
                run_config(run, rcfg, seed_, f"s{run.shard[0]}c{i}real")
