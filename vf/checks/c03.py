"""C03 - incremental SAGE: per-feature credit along the drawn chain, running statistics of every observable."""
import random

from ..harness import Scenario, gen_cfg, make_long, make_phase, ref_alpha
from ..riverlike import RealScenario, gen_real_cfg
from ..probes import InjectedFault
from ..core import config_guard
from ..explref import SageRef, Mismatch, compare

SHARDS = {"quick": 3, "thorough": 16}
TIMEOUT = {"quick": 1800, "thorough": 7200}
N_CFG = {"quick": 240, "thorough": 1500}


def pred_scale(sc):
    if getattr(sc, "pred_scale", None):
        return sc.pred_scale
    return 1000.0 if sc.cfg["model"] != "linear" else 1e6


def run_config(run, cfg, seed, tag):
    try:
        sc = (RealScenario if cfg.get("real") else Scenario)(cfg, seed)
    except Exception as ex:
        run.other_error(f"C15:construct:{type(ex).__name__}")
        return
    run.count("configs")
    ref = SageRef(sc.names, cfg["dyn"], ref_alpha(cfg), cfg["lbib"], sc.model, sc.loss, fast=cfg["steps"] > 400)
    if cfg.get("real"):
        run.count("real-model-configs")
        ref.unique = False
    for t in range(cfg["steps"]):
        if cfg.get("checkpoint") and t == min(4, cfg["steps"] - 1) and not cfg.get("real"):
            import copy
            old_sc = sc
            sc = copy.deepcopy(sc)            # checkpoint: the stream continues on a deep copy; the original is used for something else
            ref.model, ref.loss = sc.model, sc.loss
            run.ok(kind="checkpoint")
            s_old, s_new = old_sc.snapshot(), sc.snapshot()
            if not (s_old == s_new):           # everything the copy reports BEFORE its next call equals what the original reports
                bad_keys = [k_ for k_ in s_old if not (s_old[k_] == s_new.get(k_))]
                run.violation("observable:" + (bad_keys[0] if bad_keys else "keys"), f"{tag} step {t}: a deep copy of the explainer reports {bad_keys} "
                              f"{ {k_: s_new.get(k_) for k_ in bad_keys} !r}, the original { {k_: s_old[k_] for k_ in bad_keys} !r}",
                              {"cfg": cfg, "seed": seed, "step": t, "checkpoint": True})
                return
            import pickle
            try:
                pickle.dumps((sc.model, sc.loss))
                harness_picklable = True
            except Exception:
                harness_picklable = False
            if harness_picklable and not cfg.get("hoisted"):
                try:
                    e2 = pickle.loads(pickle.dumps(sc.e))
                    snap2 = {"importance": dict(e2.importance_values), "variances": dict(e2.variances)}
                    if hasattr(e2, "marginal_loss"):
                        snap2.update(marginal_loss=e2.marginal_loss, model_loss=e2.model_loss, marginal_prediction=dict(e2.marginal_prediction))
                except Exception as ex:
                    snap2 = None
                    run.count("explainer-not-picklable:" + type(ex).__name__)
                if snap2 is not None and not (snap2 == s_new):
                    bad_keys = [k_ for k_ in s_new if not (s_new[k_] == snap2.get(k_))]
                    run.violation("observable:" + (bad_keys[0] if bad_keys else "keys"), f"{tag} step {t}: an explainer restored from pickle reports "
                                  f"{ {k_: snap2.get(k_) for k_ in bad_keys} !r}, the pickled one { {k_: s_new[k_] for k_ in bad_keys} !r}",
                                  {"cfg": cfg, "seed": seed, "step": t, "checkpoint": "pickle"})
                    return
            try:
                old_sc.step()
            except Exception:
                pass
            run.count("checkpointed-streams")
        kw = sc.call_kwargs()
        if seed % 6 == 0 and t >= 1 and sc.rnd.random() < 0.3:       # a callback fails somewhere in this call; the caller carries on
            sc.clock.fail_at_next = sc.rnd.randrange(1, 3 + 2 * cfg["d"] * cfg["n_inner"])
        try:
            x, y, ret, log = sc.step(**kw)
        except InjectedFault:
            run.count("injected-faults-survived")       # a failed call changes nothing: the reference simply skips it
            continue
        except Exception as ex:
            run.ok(kind="raised")
            if any(ev[0] == "fault" for ev in sc.clock.log):
                # the injected callback fault surfaced as ANOTHER exception: C17's subject (the same exception propagates)
                run.other_error("C17:exception-not-propagated")
                return
            run.violation("explain-raises", f"{tag} step {t}: explain_one raised {type(ex).__name__}: {ex} on a legal configuration",
                          {"cfg": cfg, "seed": seed, "step": t, "kwargs": kw})
            return
        if any(ev[0] == "fault" for ev in log):
            run.other_error("C17:exception-swallowed")      # a callback raised and explain_one returned normally: C17's subject
            return
        replay = {"cfg": cfg, "seed": seed, "step": t, "kwargs": kw}
        if t == 0:
            run.ok(kind="first-call")
            if [e for e in log if e[0] in ("model", "loss")] or ret != {}:
                run.violation("first-observation", f"{tag} first call evaluated the model or returned {ret!r}", replay)
            continue
        n_used = kw.get("n_inner_samples") or sc.n_inner_now
        try:
            exp = ref.call(x, y, log, n_used)
        except Mismatch as m:
            run.ok(kind="chain")
            run.violation("chain:" + m.what, f"{tag} step {t}: {m}", replay)
            return
        obs = sc.snapshot()
        scale = max(1.0, sc.loss.max_abs)
        bad = list(compare(obs, exp, cfg["exact"], scale, pred_scale(sc)))
        run.ok(len(exp), kind="real-model" if cfg.get("real") else "exact" if cfg["exact"] else "float")
        for key, o, e in bad:
            run.violation("observable:" + key, f"{tag} step {t}: {key} observed {o!r} expected {e!r} "
                                               f"(order drawn {ref.last_order})", replay)
        if not (ret == obs["importance"]):
            run.violation("return-value", f"{tag} step {t}: returned dict differs from importance_values", replay)
        if bad:
            return
        run.see("feature-order", (cfg["d"], tuple(map(repr, ref.last_order))))
        nz = {v for v in ref.last_contrib.values() if v != 0}
        if len(nz) >= 2:
            run.nontriv(("c03", tag, t))
            if len(run.samples) < 3 and t >= 2 and cfg["d"] >= 3:
                run.sample({"cfg": cfg, "seed": seed, "step": t, "x": x, "y": y, "order_read_off_calls": list(ref.last_order),
                            "contributions": ref.last_contrib, "importance_values": obs["importance"],
                            "marginal_prediction": obs["marginal_prediction"]})


def run_shared(run, cfg, seed, tag):
    """IncrementalSage and IncrementalPFI sharing ONE storage and ONE imputer (as the repository's examples do): the SAGE
    call leaves the storage alone, the PFI call updates it; both are judged against their references on every step."""
    from ixai.explainer import IncrementalPFI
    from ..explref import PfiRef
    try:
        sc = Scenario(cfg, seed)
        pfi = IncrementalPFI(sc.model, sc.loss, sc.names, storage=sc.storage, imputer=sc.imputer, n_inner_samples=cfg["n_inner"],
                             dynamic_setting=cfg["dyn"], smoothing_alpha=cfg["alpha"])
    except Exception as ex:
        run.other_error(f"C15:construct:{type(ex).__name__}")
        return
    run.count("shared-storage-configs")
    sref = SageRef(sc.names, cfg["dyn"], ref_alpha(cfg), cfg["lbib"], sc.model, sc.loss)
    pref = PfiRef(sc.names, cfg["dyn"], ref_alpha(cfg), sc.model, sc.loss)
    for t in range(cfg["steps"]):
        x, y = sc.next_obs()
        replay = {"cfg": cfg, "seed": seed, "step": t, "shared_storage_and_imputer": True}
        try:
            sc.clock.reset()
            sret = sc.e.explain_one(x, y, update_storage=False)
            slog = list(sc.clock.log)
            sc.clock.reset()
            pret = pfi.explain_one(x, y)
            plog = list(sc.clock.log)
        except Exception as ex:
            run.ok(kind="raised")
            run.violation("explain-raises", f"{tag} step {t}: {type(ex).__name__}: {ex}", replay)
            return
        if t == 0:
            if [e for e in slog + plog if e[0] in ("model", "loss")] or sret != {} or pret != {}:
                run.violation("first-observation", f"{tag}: first calls evaluated the model", replay)
            continue
        try:
            sexp = sref.call(x, y, slog, cfg["n_inner"])
            pexp = pref.call(x, y, plog, cfg["n_inner"])
        except Mismatch as m:
            run.ok(kind="chain")
            run.violation("chain:" + m.what, f"{tag} step {t} (shared storage): {m}", replay)
            return
        scale = max(1.0, sc.loss.max_abs)
        bad = list(compare(sc.snapshot(), sexp, cfg["exact"], scale, pred_scale(sc)))
        pobs = {"importance": dict(pfi.importance_values), "variances": dict(pfi.variances)}
        bad += list(compare(pobs, pexp, cfg["exact"], scale))
        run.ok(len(sexp) + len(pexp), kind="shared-storage")
        for key, o, e in bad:
            run.violation("observable:" + key, f"{tag} step {t} (SAGE+PFI sharing storage and imputer): {key} observed {o!r} expected {e!r}", replay)
        if bad:
            return
        if len({v for v in sref.last_contrib.values() if v != 0}) >= 2:
            run.nontriv(("c03-shared", tag, t))


def main(run):
    run.rule = ("seeded configurations from the cfg product; per call the feature order and the imputed sets are read "
                "off the imputer calls / model inputs (unique feature values), an independent reference recomputes "
                "coalition losses with pristine model/loss twins and closed-form running statistics; importance, "
                "variances, marginal_loss, model_loss, marginal_prediction compared on every prefix, also for real river models that keep learning between calls (every 12th configuration) (== in exact mode, "
                "1e-9*scale in float mode); evaluations = observables compared; non-trivial = call with >= 2 distinct "
                "non-zero contributions, distinct by (config, step)")
    run.assumptions = ["model and loss are the harness' deterministic pure functions",
                       "float mode uses continuous losses only"]
    run.require("ixai/explainer/sage/incremental.py:IncrementalSage.explain_one",
                "ixai/utils/tracker/multi_value.py:MultiValueTracker.get_normalized")
    run.require_count("real-model-configs", "long-stream-configs", "late-informative-model-configs")
    rnd = random.Random(run.shard_seed)
    for i in range(N_CFG[run.tier]):
        cfg = gen_cfg(rnd, "sage", exact=(i % 3 != 2))
        if i in (40, 41) or (run.tier == "thorough" and i % 1500 == 42):      # thousands of calls on one explainer (exact and float)
            make_long(cfg, rnd, 4200 if i == 41 else rnd.choice([1100, 1300, (5000 if run.tier == "thorough" else 2100) if not cfg["exact"] else 1200]))
            run.count("long-stream-configs")
        if i in (50, 51, 53, 56) or (run.tier == "thorough" and i % 300 == 50):      # model that becomes informative after ~40 observations
            make_phase(cfg, rnd, dyn=(i == 51))
            run.count("late-informative-model-configs")
        seed_ = rnd.randrange(2 ** 31)
        with config_guard(run):
            run_config(run, cfg, seed_, f"s{run.shard[0]}c{i}")
        if i % 12 == 11:       # a real river model that keeps learning, river streams, river metrics, the library's wrappers
            rcfg = gen_real_cfg(rnd, "sage", need_decode=True)
            seed_ = rnd.randrange(2 ** 31)
            with config_guard(run):
                run_config(run, rcfg, seed_, f"s{run.shard[0]}c{i}real")
        if i % 6 == 5 and cfg["imputer"] != "library-default" and cfg["storage"][0] != "library-default":
            cfg2 = dict(cfg, vary_calls=False, warm_start=0, out_type=("plain" if cfg.get("out_type") == "u8-loss" else cfg.get("out_type", "plain")))
            run_shared(run, cfg2, rnd.randrange(2 ** 31), f"s{run.shard[0]}c{i}shared")
