"""C04 - unbiased updates: uniform feature orders and background rows.
(a) draw-level: orders / source rows decoded from the model inputs, exact binomial cell tests;
(b) outcome-level: per-call contribution vectors (alpha=1 trick / batch return values) against the exact
    distribution obtained by enumerating all permutations and background rows, plus the mean against the exact
    expectation (Hoeffding)."""
import collections
import itertools
import math
import random

import numpy as np

from ..probes import Clock, Models, Losses, make_names
from ..harness import ImputerProxy
from ..qnum import Q
from ..refs import mean_out
from fractions import Fraction

from ..stats import CellTests, EPS, hoeffding_radius

SHARDS = {"quick": 8, "thorough": 16}
TIMEOUT = {"quick": 1200, "thorough": 10800}


def normalize(pred):
    if len(pred) <= 1:
        return dict(pred)
    s = 0
    for v in pred.values():
        s = s + v
    if s == 0:
        return {k: 0.0 for k in pred}
    return {k: v / s for k, v in pred.items()}


# ------------------------------------------------------------------------------------------------
# exact outcome distributions, written from the statement (uniform orders, uniform rows)
def inner_draws(subset, m, n, strategy):
    """All equally likely background assignments for n inner samples: list of tuples (one dict f->row per sample)."""
    subset = list(subset)
    if not subset:
        return [tuple({} for _ in range(n))]
    if strategy == "joint":
        one = [{f: r for f in subset} for r in range(m)]
    else:
        one = [dict(zip(subset, rs)) for rs in itertools.product(range(m), repeat=len(subset))]
    return list(itertools.product(one, repeat=n))


def chain_dist(names, x, y, rows, n, strategy, model, loss, v0):
    """Distribution of the SAGE contribution vector of one observation (imputer-based modes)."""
    m = len(rows)
    dist = collections.Counter()
    perms = list(itertools.permutations(names))
    for perm in perms:
        def rec(step, remaining, prev, contrib, prob):
            if step == len(names):
                dist[tuple(contrib[f] for f in names)] += prob
                return
            f = perm[step]
            rem = [g for g in remaining if g != f]
            draws = inner_draws(rem, m, n, strategy)
            pc = Q(1, len(draws))
            memo = collections.Counter()
            for dr in draws:
                preds = []
                for assign in dr:
                    xi = dict(x)
                    for g, r in assign.items():
                        xi[g] = rows[r][g]
                    preds.append(model.one(xi))
                memo[loss.one(y, mean_out(preds))] += pc
            for cur, p in memo.items():
                c = dict(contrib)
                c[f] = prev - cur
                rec(step + 1, rem, cur, c, prob * p)
        rec(0, list(names), v0, {}, Q(1, len(perms)))
    return dist


def original_obs_dist(names, x, y, rows, n, model, loss, v0):
    """Original SAGE: unrevealed features come from ONE uniformly drawn row of the whole data set per inner sample."""
    m = len(rows)
    dist = collections.Counter()
    perms = list(itertools.permutations(names))
    for perm in perms:
        def rec(step, revealed, prev, contrib, prob):
            if step == len(names):
                dist[tuple(contrib[f] for f in names)] += prob
                return
            f = perm[step]
            rev = revealed + [f]
            memo = collections.Counter()
            pc = Q(1, m ** n)
            for rs in itertools.product(range(m), repeat=n):
                preds = [model.one({**rows[r], **{g: x[g] for g in rev}}) for r in rs]
                memo[loss.one(y, mean_out(preds))] += pc
            for cur, p in memo.items():
                c = dict(contrib)
                c[f] = prev - cur
                rec(step + 1, rev, cur, c, prob * p)
        rec(0, [], v0, {}, Q(1, len(perms)))
    return dist


def convolve_mean(dists):
    """Distribution of the average of independent vectors."""
    acc = {None: Q(1)}
    first = True
    for dist in dists:
        new = collections.Counter()
        for a, pa in acc.items():
            for b, pb in dist.items():
                s = b if first else tuple(u + v for u, v in zip(a, b))
                new[s] += pa * pb
        acc, first = new, False
    k = len(dists)
    out = collections.Counter()
    for vec, p in acc.items():
        out[tuple(v / k for v in vec)] += p
    return out


def pfi_dist(names, x, y, rows, n, model, loss):
    m = len(rows)
    ol = loss.one(y, model.one(x))
    per = []
    for f in names:
        dd = collections.Counter()
        for rs in itertools.product(range(m), repeat=n):
            tot = 0
            for r in rs:
                tot = tot + loss.one(y, model.one({**x, f: rows[r][f]}))
            dd[tot / n - ol] += Q(1, m ** n)
        per.append(dd)
    dist = collections.Counter()
    for combo in itertools.product(*[list(d.items()) for d in per]):
        p = Q(1)
        for _, pp in combo:
            p = p * pp
        dist[tuple(v for v, _ in combo)] += p
    return dist



# ------------------------------------------------------------------------------------------------
# input classes "the explained data / the storage_length argument say something else than the storage content"
def short_length(idx, m):
    """An explicit `storage_length` SMALLER than the user-supplied storage (1 .. m-1): the statement's background population stays
    the whole storage content."""
    return 1 + (idx // 2) % (m - 1)


def variant_flags(kind):
    big, hold = kind.endswith("-big"), kind.endswith("-holdout")
    return kind.replace("-big", "").replace("-holdout", ""), big, hold


def variant_tag(big, hold, idx, m):
    return (f"(user storage of {m} rows > storage_length={short_length(idx, m)})" if big else "") + \
           ("(hold-out data set, storage holds other rows)" if hold else "")


def holdout_batch_sage(run, model, names, loss, n, idx, m):
    """A BatchSage whose storage is NOT empty and holds OTHER observations (other values, mostly another count) than the data set
    handed to explain_many_original later: pre-filled storage passed to the constructor / update_storage calls / earlier
    explain_one calls.  Original mode draws its background from the handed data set, whatever the storage holds."""
    from ixai.explainer import BatchSage
    from ixai.storage import BatchStorage, IntervalStorage
    k = (m + 1, 1, m)[(idx // 2) % 3]
    other = [{f: 50000000 + 1000 * t + j for j, f in enumerate(names)} for t in range(k)]
    oys = [t + 2 for t in range(k)]
    route = idx % 3
    if route == 0:
        st = IntervalStorage(size=k, store_targets=True) if idx % 2 else BatchStorage(store_targets=True)
        for r, yy in zip(other, oys):
            st.update(r, yy)
        e = BatchSage(model, names, loss, n_inner_samples=n, storage=st)
    else:
        e = BatchSage(model, names, loss, n_inner_samples=n)
        for t, (r, yy) in enumerate(zip(other, oys)):
            if route == 1:
                e.update_storage(r, yy)
            else:
                e.explain_one(r, yy, original_sage=(t % 2 == 1), verbose=False)
    run.count("original-holdout-nonempty-storage")
    run.nontriv(("holdout-route", route, k, m))
    return e


# ------------------------------------------------------------------------------------------------
OUTCOME_CFGS = [
    # (explainer, strategy, d, m, n_inner)
    ("sage", "joint", 3, 3, 1), ("sage", "product", 3, 2, 1), ("sage", "joint", 2, 3, 2), ("sage", "product", 2, 2, 2),
    ("pfi", "joint", 2, 3, 2), ("pfi", "product", 3, 2, 1),
    ("batch", "joint", 3, 2, 1), ("batch", "product", 2, 3, 1),
    ("interval", "joint", 2, 2, 1),
    ("pfi-override", "joint", 2, 3, 2), ("sage-override", "joint", 2, 2, 2),      # constructor n_inner=1, per-call n_inner_samples=2
    ("original", None, 2, 3, 1), ("original", None, 2, 2, 2), ("original", None, 3, 2, 1),
]
R_OUTCOME = {"quick": 12000, "thorough": 250000}


def outcome_case(run, idx, cfgspec, runs, seed):
    from ixai.explainer import IncrementalSage, IncrementalPFI, BatchSage, IntervalSage
    from ixai.storage import BatchStorage, IntervalStorage
    from ixai.imputer import MarginalImputer
    kind, strat, d, m, n = cfgspec
    override = kind.endswith("-override")
    kind, big, hold = variant_flags(kind.replace("-override", ""))
    names = make_names("str", d)
    # (every other multi-label game uses a model whose LABEL SET depends on the input: a missing label counts as 0 in a mean)
    model = Models(("grow" if idx % 2 == 1 else "multi") if kind in ("sage", "batch") else "scalar", names, exact=True)
    loss = Losses("hash", exact=True)
    rows = [{f: 1000 * (t + 1) + j for j, f in enumerate(names)} for t in range(m)]
    ys = [t - 1 for t in range(m)]
    x = {f: 900000 + j for j, f in enumerate(names)}
    y = 7
    random.seed(seed)
    np.random.seed(seed)
    tag = f"{kind}{'(per-call n_inner override)' if override else ''}{variant_tag(big, hold, idx, m)}/{strat}/d={d}/m={m}/n={n}"
    # exact law
    if kind == "sage":
        dist = chain_dist(names, x, y, rows, n, strat, model, loss, loss.one(y, normalize(model.one(x))))
    elif kind == "pfi":
        dist = pfi_dist(names, x, y, rows, n, model, loss)
    elif kind == "batch":
        dist = chain_dist(names, x, y, rows, n, strat, model, loss, loss.one(y, mean_out([model.one(x)])))
    elif kind == "interval":
        mp = mean_out([model.one(r) for r in rows])
        dist = convolve_mean([chain_dist(names, r, yy, rows, n, strat, model, loss, loss.one(yy, mp)) for r, yy in zip(rows, ys)])
    else:
        mp = mean_out([model.one(r) for r in rows])
        per_obs = [original_obs_dist(names, r, yy, rows, n, model, loss, loss.one(yy, mp)) for r, yy in zip(rows, ys)]
        dist = convolve_mean(per_obs)
    assert sum(dist.values()) == 1
    expect = [sum(p * vec[i] for vec, p in dist.items()) for i in range(d)]
    width = [max(vec[i] for vec in dist) - min(vec[i] for vec in dist) for i in range(d)]
    # the real code
    if kind in ("sage", "pfi"):
        st = BatchStorage(store_targets=False)
        for r in rows:
            st.update(r)
        imp = MarginalImputer(model, "".join(list(strat)), st)
        cls = IncrementalSage if kind == "sage" else IncrementalPFI
        # runtime-built strategy string (equal to, but not the same object as, the literal)
        e = cls(model, loss, names, smoothing_alpha=1, storage=st, imputer=imp, n_inner_samples=(1 if override else n), dynamic_setting=True)
        e.explain_one({f: 5 + j for j, f in enumerate(names)}, 1, update_storage=False)   # first call only counts
        kwc = {"n_inner_samples": n} if override else {}

        def draw():
            r = e.explain_one(x, y, update_storage=False, **kwc)
            return tuple(r[f] for f in names)
    elif kind == "batch":
        st = BatchStorage(store_targets=True)
        for r, yy in zip(rows, ys):
            st.update(r, yy)
        e = BatchSage(model, names, loss, n_inner_samples=n, storage=st, imputer=MarginalImputer(model, strat, st))

        def draw():
            r = e.explain_many([x], [y], verbose=False)
            return tuple(r[f] for f in names)
    elif kind == "interval":
        st = IntervalStorage(size=m, store_targets=True)
        for r, yy in zip(rows[:-1], ys[:-1]):
            st.update(r, yy)
        # -big: the user's storage holds more rows than `storage_length` says; joint games then run on the explainer's DEFAULT imputer
        if big:
            run.count("interval-storage-exceeds-storage_length")
        e = IntervalSage(model, names, loss, n_inner_samples=n, interval_length=1, storage_length=(short_length(idx, m) if big else m),
                         storage=st, imputer=(None if big and strat == "joint" else MarginalImputer(model, strat, st)))
        e.explain_one(rows[-1], ys[-1], verbose=False)

        def draw():
            r = e.explain_one(rows[-1], ys[-1], update_storage=False, force_explain=True, verbose=False)
            return tuple(r[f] for f in names)
    else:
        e = holdout_batch_sage(run, model, names, loss, n, idx, m) if hold else BatchSage(model, names, loss, n_inner_samples=n)

        def draw():
            r = e.explain_many_original(rows, ys, verbose=False)
            return tuple(r[f] for f in names)
    obs = collections.Counter()
    tot = [Q(0)] * d
    try:
        for _ in range(runs):
            vec = draw()
            obs[vec] += 1
            tot = [a + b for a, b in zip(tot, vec)]
    except TypeError as ex:
        run.other_error(f"C15:{type(ex).__name__}:{str(ex)[:50]}")
        return
    run.ok(runs, kind="outcome:" + kind)
    ct = CellTests(len(dist) + 1, eps=EPS / (2 * len(OUTCOME_CFGS) + 64))
    fails = []
    unknown = [v for v in obs if v not in dist]
    if unknown:
        fails.append(("impossible-outcome", f"{tag}: contribution vector {unknown[0]!r} observed {obs[unknown[0]]}x has probability 0 "
                                            f"under uniform orders/rows ({len(unknown)} such vectors)"))
    for vec, p in dist.items():
        r = ct.test(obs.get(vec, 0), runs, float(p), f"{tag} outcome {tuple(float(v) for v in vec)}")
        if r:
            fails.append(("outcome-distribution", r))
    alpha_m = EPS / (2 * len(OUTCOME_CFGS) + 64) / d
    for i in range(d):
        rad = hoeffding_radius(runs, float(width[i]), alpha_m)
        if abs(float(tot[i] / runs - expect[i])) > rad:
            fails.append(("expectation", f"{tag}: mean contribution of {names[i]!r} {float(tot[i] / runs):.6g} vs exact "
                                         f"{float(expect[i]):.6g}, Hoeffding radius {rad:.4g}"))
    run.count("cell-tests", ct.done)
    run.notes[f"outcome {tag}"] = {"exact_outcomes": len(dist), "observed_outcomes": len(obs), "min_p": ct.min_p,
                                   "exact_expectation": [float(v) for v in expect],
                                   "observed_mean": [float(t / runs) for t in tot], "mdd": ct.max_mdd}
    for vec in obs:
        run.nontriv(("outcome", tag, tuple(str(v) for v in vec)))
    seen = set()
    for mech, msg in fails:
        if mech not in seen:
            seen.add(mech)
            run.violation(f"{'original-mode' if kind.startswith('original') else kind}:{mech}", msg + f" ({runs} calls)",
                          {"config": cfgspec, "runs": runs, "seed": seed})
    if len(run.samples) < 2:
        top = sorted(dist.items(), key=lambda kv: -kv[1])[:3]
        run.sample({"config": tag, "rows": rows, "x": x, "y": y, "calls": runs,
                    "top_outcomes_exact_vs_observed": [[list(map(str, v)), float(p), obs.get(v, 0) / runs] for v, p in top]})


# ------------------------------------------------------------------------------------------------
DRAW_CFGS = [
    # (explainer, strategy, d, m, n_inner)
    ("sage", "joint", 3, 2, 2), ("sage", "product", 3, 3, 2), ("sage", "joint", 4, 5, 1), ("sage", "product", 2, 100, 2),
    ("pfi", "joint", 3, 3, 2), ("pfi", "product", 2, 5, 3), ("pfi", "joint", 2, 100, 1),
    ("batch", "joint", 3, 3, 1), ("batch", "product", 3, 5, 2), ("batch", "joint", 2, 1000, 2),
    ("original", None, 3, 4, 2), ("original", None, 2, 7, 1), ("original", None, 2, 50, 1),
]
R_DRAW = {"quick": 3000, "thorough": 60000}


def bucket(r, m):
    return r if m <= 7 else r * 5 // m


def nb(m):
    return m if m <= 7 else 5


def draw_case(run, idx, cfgspec, runs, seed):
    from ixai.explainer import IncrementalSage, IncrementalPFI, BatchSage
    from ixai.storage import BatchStorage
    from ixai.imputer import MarginalImputer
    kind, strat, d, m, n = cfgspec
    kind, _, hold = variant_flags(kind)
    names = make_names("str", d)
    clock = Clock()
    inputs = []

    def model(xx):
        if isinstance(xx, dict):
            inputs.append(xx)
            clock.log.append(("model", dict(xx)))       # (the imputer proxy reads the inputs of one impute call off this log)
            return {"output": 0.0}
        return [{"output": 0.0} for _ in xx]

    def loss(*a, **k):
        return 0.0
    rows = [{f: 1000 * (t + 1) + j for j, f in enumerate(names)} for t in range(m)]
    src = {(j, 1000 * (t + 1) + j): t for t in range(m) for j in range(d)}
    x = {f: 9000000 + j for j, f in enumerate(names)}
    random.seed(seed)
    np.random.seed(seed)
    tag = f"{kind}{variant_tag(False, hold, idx, m)}/{strat}/d={d}/m={m}/n={n}"
    orders = collections.Counter()
    rowc = collections.defaultdict(collections.Counter)     # cell family -> counts
    pairs = collections.defaultdict(collections.Counter)
    fails = []
    B = nb(m)

    def decode(xi, ref):
        """-> {feature index: source row} for features differing from ref."""
        out = {}
        for j, f in enumerate(names):
            if xi[f] != ref[f]:
                out[j] = src.get((j, xi[f]), None)
        return out
    if kind in ("sage", "pfi", "batch"):
        if kind != "batch" and idx % 2 == 0:       # deque-backed storages (IntervalStorage) next to list-backed ones
            from ixai.storage import IntervalStorage
            st = IntervalStorage(size=m, store_targets=True)
        else:
            st = BatchStorage(store_targets=True)
        for t, r in enumerate(rows):
            st.update(r, t)
        imp = ImputerProxy(MarginalImputer(model, strat, st), clock)
        if kind == "batch":
            e = BatchSage(model, names, loss, n_inner_samples=n, storage=st, imputer=imp)
        else:
            cls = IncrementalSage if kind == "sage" else IncrementalPFI
            e = cls(model, loss, names, smoothing_alpha=0.5, storage=st, imputer=imp, n_inner_samples=n, dynamic_setting=True)
            e.explain_one(dict(x), 0, update_storage=False)
        for _ in range(runs):
            clock.reset()
            del inputs[:]
            if kind == "batch":
                e.explain_many([x], [0], verbose=False)
            else:
                e.explain_one(x, 0, update_storage=False)
            rets = [ev for ev in clock.log if ev[0] == "impute.ret"]
            if kind != "pfi":
                remaining, order = set(names), []
                for ev in rets:
                    diff = remaining - set(ev[1])
                    if len(diff) != 1:
                        fails.append(("chain", f"{tag}: imputation sets are not a chain"))
                        break
                    order.append(next(iter(diff)))
                    remaining = set(ev[1])
                orders[tuple(order)] += 1
            for step, ev in enumerate(rets):
                prev_row = None
                for k, xi in enumerate(ev[2]):
                    dec = decode(xi, x)
                    if set(dec) != {names.index(f) for f in ev[1]} or None in dec.values():
                        fails.append(("not-a-stored-value", f"{tag}: imputed input {xi!r} for subset {ev[1]!r}"))
                        continue
                    if not dec:
                        continue
                    if strat == "joint":
                        if len(set(dec.values())) != 1:
                            fails.append(("joint-mixed-rows", f"{tag}: joint sample mixes rows {dec}"))
                        r = next(iter(dec.values()))
                        rowc[("row", min(step, 2))][bucket(r, m)] += 1
                        cur = r
                    else:
                        js = sorted(dec)
                        for j in js:
                            rowc[("row", j)][bucket(dec[j], m)] += 1
                        if len(js) >= 2 and m <= 5:
                            pairs[("featpair", js[0], js[1])][(dec[js[0]], dec[js[1]])] += 1
                        cur = dec[js[0]]
                    if prev_row is not None and m <= 5 and k == 1:
                        pairs[("innerpair", min(step, 1))][(prev_row, cur)] += 1
                    prev_row = cur
    else:
        # (-holdout: the storage holds other observations; every unrevealed value must still stem from ONE row of the handed data set)
        e = holdout_batch_sage(run, model, names, loss, n, idx, m) if hold else BatchSage(model, names, loss, n_inner_samples=n)
        ys = list(range(m))
        pos_sel = sorted({0, 1, m // 2, m - 1} & set(range(m)))
        for _ in range(runs):
            del inputs[:]
            e.explain_many_original(rows, ys, verbose=False)
            if len(inputs) != m * d * n:
                fails.append(("evaluation-count", f"{tag}: {len(inputs)} evaluations, expected {m * d * n}"))
                break
            for i in pos_sel:
                first = None
                order = []
                known = set()
                for j in range(d):
                    chunk = inputs[(i * d + j) * n:(i * d + j + 1) * n]
                    for k, xi in enumerate(chunk):
                        same = {g for g in range(d) if xi[names[g]] == rows[i][names[g]]}
                        other = [g for g in range(d) if g not in same]
                        if other:
                            rs = {src.get((g, xi[names[g]])) for g in other}
                            if len(rs) != 1 or None in rs:
                                fails.append(("background-row", f"{tag}: unrevealed features not from one data row: {xi!r}"))
                                continue
                            r = next(iter(rs))
                        else:
                            r = i if j < d - 1 else None     # own row drawn (or last step: row unobservable)
                        if j == 0 and k == 0 and r is not None:
                            rowc[("origrow", i)][bucket(r, m)] += 1
                        if j == 0 and k == 1 and first is not None and r is not None and m <= 5:
                            pairs[("originner", i)][(first, r)] += 1
                        if j == 0 and k == 0:
                            first = r
    if kind in ("sage", "batch", "pfi") or True:
        pass
    run.ok(runs, kind="draws:" + kind)
    ntests = (math.factorial(d) if orders else 0) + sum(B for _ in rowc) + sum(min(m, 5) ** 2 for _ in pairs)
    ct = CellTests(max(1, ntests), eps=EPS / (2 * len(DRAW_CFGS) + 64))
    for o in itertools.permutations(names):
        if orders:
            r = ct.test(orders.get(o, 0), sum(orders.values()), 1 / math.factorial(d), f"{tag} feature order {o}")
            if r:
                fails.append(("order-distribution", r))
    for fam, cnt in sorted(rowc.items(), key=repr):
        tot = sum(cnt.values())
        for b in range(B):
            size = 1 if m <= 7 else len([r for r in range(m) if bucket(r, m) == b])
            r = ct.test(cnt.get(b, 0), tot, size / m, f"{tag} {fam} background row{' bucket' if m > 7 else ''} {b}")
            if r:
                fails.append(("row-distribution", r))
    for fam, cnt in sorted(pairs.items(), key=repr):
        tot = sum(cnt.values())
        for a in range(m):
            for b in range(m):
                r = ct.test(cnt.get((a, b), 0), tot, 1 / (m * m), f"{tag} {fam} rows ({a},{b})")
                if r:
                    fails.append(("row-independence", r))
    run.count("cell-tests", ct.done)
    run.count("draw-level-row-cells", sum(len(c_) for c_ in rowc.values()))
    run.count("draw-level-pair-cells", sum(len(c_) for c_ in pairs.values()))
    run.notes[f"draws {tag}"] = {"orders_seen": len(orders), "row_families": len(rowc), "pair_families": len(pairs),
                                 "min_p": ct.min_p, "mdd": ct.max_mdd}
    for o in orders:
        run.nontriv(("order", tag, o))
    for fam, cnt in rowc.items():
        for b in cnt:
            run.nontriv(("row", tag, repr(fam), b))
    seen = set()
    for mech, msg in fails:
        if mech not in seen:
            seen.add(mech)
            run.violation(f"{'original-mode' if kind == 'original' else kind}:{mech}", msg + f" ({runs} calls)",
                          {"config": cfgspec, "runs": runs, "seed": seed})
    if len(run.samples) < 3 and orders:
        run.sample({"config": tag, "calls": runs, "order_counts": {" ".join(k): v for k, v in orders.items()},
                    "row_counts": {repr(k): dict(v) for k, v in list(rowc.items())[:3]}})


# ------------------------------------------------------------------------------------------------
class RecImputer:
    """Minimal imputer that only records the requested subsets (order decoding at high repetition counts)."""

    def __init__(self):
        self.subsets = []

    def impute(self, feature_subset, x_i, n_samples=1):
        self.subsets.append(frozenset(feature_subset))
        return [{"output": 0.0}] * n_samples


ORDER_CFGS = [("sage", 2), ("sage", 3), ("sage", 4), ("batch", 3), ("batch", 4), ("original", 3), ("sage", 5)]
# thorough only: millions of orders per configuration, judged by the d*d position marginals (a 1 % bias of one position is ~10 sd)
ORDER_DEEP_CFGS = [("batch-many", 5), ("batch-many", 6), ("batch-many", 3), ("sage-deep", 5)]
R_ORDER = {"quick": 60000, "thorough": 600000}
R_ORDER_DEEP = {"batch-many": 5000000, "sage-deep": 2500000}


def order_case(run, idx, cfgspec, runs, seed):
    from ixai.explainer import IncrementalSage, BatchSage
    kind, d = cfgspec
    names = make_names("str", d)
    random.seed(seed)
    np.random.seed(seed)
    tag = f"orders/{kind}/d={d}"
    orders = collections.Counter()
    x = {f: float(j + 1) for j, f in enumerate(names)}
    inputs = []
    if kind == "original":
        runs = runs // 8
        rows = [{f: 1000.0 * (t + 1) + j for j, f in enumerate(names)} for t in range(6)]

        def model(xx):
            if isinstance(xx, dict):
                inputs.append(xx)
                return {"output": 0.0}
            return [{"output": 0.0} for _ in xx]
        e = BatchSage(model, names, lambda a, b: 0.0, n_inner_samples=1)
        for _ in range(runs):
            del inputs[:]
            e.explain_many_original(rows, list(range(6)), verbose=False)
            first = inputs[:d]
            known, order, ok = set(), [], True
            for xi in first:
                same = {f for f in names if xi[f] == rows[0][f]}
                new = same - known
                if same == set(names) and len(known) < d - 1:
                    ok = False            # own row drawn: order not observable for this call
                    break
                if len(new) != 1:
                    ok = False
                    break
                order.append(next(iter(new)))
                known = same
            if ok:
                orders[tuple(order)] += 1
    elif kind == "batch-many":
        imp = RecImputer()
        e = BatchSage(lambda xx: ({"output": 0.0} if isinstance(xx, dict) else [{"output": 0.0} for _ in xx]), names,
                      lambda a, b: 0.0, imputer=imp)
        full = frozenset(names)
        block = 2000
        xs, ys = [x] * block, [0] * block
        for _ in range(runs // block):
            del imp.subsets[:]
            e.explain_many(xs, ys, verbose=False)
            subs = imp.subsets
            if len(subs) != d * block:
                orders[None] += block
                continue
            for b in range(0, len(subs), d):
                rem, order = full, []
                for sub in subs[b:b + d]:
                    diff = rem - sub
                    if len(diff) != 1:
                        order = None
                        break
                    order.append(next(iter(diff)))
                    rem = sub
                orders[tuple(order) if order else None] += 1
    else:
        imp = RecImputer()
        if kind in ("sage", "sage-deep"):
            e = IncrementalSage(lambda xx: {"output": 0.0}, lambda a, b: 0.0, names, smoothing_alpha=0.5, imputer=imp, dynamic_setting=True)
            e.explain_one(x, 0, update_storage=False)
            step = lambda: e.explain_one(x, 0, update_storage=False)
        else:
            e = BatchSage(lambda xx: ({"output": 0.0} if isinstance(xx, dict) else [{"output": 0.0} for _ in xx]), names,
                          lambda a, b: 0.0, imputer=imp)
            step = lambda: e.explain_many([x], [0], verbose=False)
        full = frozenset(names)
        for _ in range(runs):
            del imp.subsets[:]
            step()
            rem, order = full, []
            for sub in imp.subsets:
                diff = rem - sub
                if len(diff) != 1:
                    order = None
                    break
                order.append(next(iter(diff)))
                rem = sub
            orders[tuple(order) if order else None] += 1
    run.ok(runs, kind="orders:" + kind)
    tot = sum(orders.values())
    ct = CellTests(math.factorial(d) + d * d, eps=EPS / (2 * len(OUTCOME_CFGS) + 64))
    fails = []
    if orders.get(None):
        fails.append(("chain", f"{tag}: {orders[None]} calls whose imputation sets are not a chain"))
    marg = collections.Counter()
    for o in itertools.permutations(names):
        r = ct.test(orders.get(o, 0), tot, 1 / math.factorial(d), f"{tag} feature order {o}")
        if r:
            fails.append(("order-distribution", r))
        if orders.get(o):
            run.nontriv(("order", tag, o))
            for pos, f in enumerate(o):
                marg[(f, pos)] += orders[o]
    # position marginals: one indicator per call and cell (feature f is the pos-th to be removed), probability 1/d each
    for f in names:
        for pos in range(d):
            r = ct.test(marg.get((f, pos), 0), tot, 1 / d, f"{tag} feature {f!r} at chain position {pos}")
            if r:
                fails.append(("order-position-marginal", r))
    run.count("order-position-cells", d * d)
    run.count("cell-tests", ct.done)
    run.notes[f"{tag}"] = {"calls_decoded": tot, "orders_seen": len(orders), "min_p": ct.min_p, "mdd": ct.max_mdd}
    seen = set()
    for mech, msg in fails:
        if mech not in seen:
            seen.add(mech)
            run.violation(f"{'original-mode' if kind == 'original' else kind}:{mech}", msg + f" ({tot} calls)", {"config": cfgspec, "runs": runs, "seed": seed})


MOVING_CFGS = [("pfi", "interval", 4, "joint"), ("sage", "interval", 3, "product"), ("sage", "geometric1", 4, "joint"),
               ("pfi", "uniform", 3, "product"), ("sage", "sequence", 1, "joint"), ("interval-sage", "interval", 3, "joint")]
R_MOVING = {"quick": 5000, "thorough": 60000}


def moving_case(run, idx, cfgspec, runs, seed):
    """Storage evolves between explanations (update_storage=True): background rows must come from the CURRENT content."""
    from ixai.explainer import IncrementalSage, IncrementalPFI, IntervalSage
    from ixai.storage import IntervalStorage, GeometricReservoirStorage, UniformReservoirStorage, SequenceStorage
    from ixai.imputer import MarginalImputer
    kind, st_kind, m, strat = cfgspec
    d = 3
    names = make_names("str", d)
    clock = Clock()
    random.seed(seed)
    np.random.seed(seed)

    def model(xx):
        if isinstance(xx, dict):
            clock.log.append(("model", xx))
            return {"output": 0.0}
        return [{"output": 0.0} for _ in xx]
    st = {"interval": lambda: IntervalStorage(size=m, store_targets=True), "geometric1": lambda: GeometricReservoirStorage(size=m, constant_probability=1.0),
          "uniform": lambda: UniformReservoirStorage(size=m), "sequence": lambda: SequenceStorage()}[st_kind]()
    imp = ImputerProxy(MarginalImputer(model, strat, st), clock)
    if kind == "interval-sage":
        e = IntervalSage(model, names, lambda a, b: 0.0, n_inner_samples=2, interval_length=1, storage_length=m, storage=st, imputer=imp)
    else:
        cls = IncrementalSage if kind == "sage" else IncrementalPFI
        e = cls(model, lambda a, b: 0.0, names, smoothing_alpha=0.5, storage=st, imputer=imp, n_inner_samples=2, dynamic_setting=True)
    tag = f"moving/{kind}/{st_kind}/m={m}/{strat}"
    cells = collections.Counter()
    fails = []
    judged = 0
    for t in range(runs):
        x = {f: 1000 * (t + 1) + j for j, f in enumerate(names)}
        if kind == "interval-sage":
            st.update(x, t)
            rows = list(st.get_data()[0])
            clock.reset()
            e.explain_one(x, t, update_storage=False, verbose=False)
        else:
            rows = list(st.get_data()[0])
            clock.reset()
            e.explain_one(x, t)
        if not rows:
            continue
        full = len(rows) == m
        for ev in clock.log:
            if ev[0] != "impute.ret":
                continue
            xref = next(c[2] for c in clock.log if c[0] == "impute.call")
            for xi in ev[2]:
                for f in ev[1]:
                    idxs = [i for i, r in enumerate(rows) if r[f] == xi[f]]
                    judged += 1
                    if not idxs:
                        fails.append(("background-not-current", f"{tag} step {t}: feature {f!r} imputed with {xi[f]!r} which no CURRENTLY stored "
                                                                f"observation has (stored: {[r[f] for r in rows]})"))
                    elif full:
                        cells[idxs[0]] += 1
        if len(fails) > 5:
            break
    run.ok(judged, kind="moving:" + kind)
    ct = CellTests(m, eps=EPS / (2 * len(OUTCOME_CFGS) + 64))
    tot = sum(cells.values())
    for i in range(m):
        r = ct.test(cells.get(i, 0), tot, 1 / m, f"{tag} position {i} of the current storage content")
        if r:
            fails.append(("row-distribution", r))
        if cells.get(i):
            run.nontriv(("moving", tag, i))
    run.count("cell-tests", ct.done)
    run.notes[tag] = {"imputed_values_judged": judged, "min_p": ct.min_p, "mdd": ct.max_mdd}
    seen = set()
    for mech, msg in fails:
        if mech not in seen:
            seen.add(mech)
            run.violation(f"{kind}:{mech}", msg, {"config": cfgspec, "runs": runs, "seed": seed})



# (d, rows the USER-SUPPLIED IntervalStorage holds, storage_length handed to IntervalSage (None: left at its default), n_inner,
#  interval_length, explanations (None: R_INTERVAL_BIG))
INTERVAL_BIG_CFGS = [(3, 12, 5, 2, 1, None), (2, 6, 1, 1, 3, None), (2, 1200, None, 1, 100, 24)]
R_INTERVAL_BIG = {"quick": 1500, "thorough": 20000}


def interval_big_case(run, idx, cfgspec, runs, seed):
    """IntervalSage on its DEFAULT imputer with a user-supplied IntervalStorage that holds more rows than `storage_length` says
    (explicit small value, or the untouched default next to a larger storage), fed through explain_one (update_storage=True):
    the background row of every evaluation, decoded from the model inputs, must be one CURRENTLY stored row, uniform over the whole
    storage content."""
    from ixai.explainer import IntervalSage
    from ixai.storage import IntervalStorage
    d, m, sl, n, every, n_expl = cfgspec
    n_expl = n_expl or runs
    names = make_names("str", d)
    random.seed(seed)
    np.random.seed(seed)
    inputs = []

    def model(xx):
        if isinstance(xx, dict):
            inputs.append(xx)
            return {"output": 0.0}
        return [{"output": 0.0} for _ in xx]
    st = IntervalStorage(size=m, store_targets=True)
    kw = {} if sl is None else {"storage_length": sl}
    e = IntervalSage(model, names, lambda a, b: 0.0, n_inner_samples=n, interval_length=every, storage=st, **kw)
    tag = f"interval(user storage of {m} rows, storage_length={'default' if sl is None else sl})/joint/d={d}/n={n}"
    run.count("interval-storage-exceeds-storage_length")
    B = nb(m)
    rowc = collections.defaultdict(collections.Counter)
    fails = []
    judged = undecodable = 0
    for t in range(m - 1):                                    # fill phase (explanations on a partly filled storage are not judged)
        st.update({f: 1000 * (t + 1) + j for j, f in enumerate(names)}, t)
    done = 0
    t = m - 1
    while done < n_expl and len(fails) <= 5:
        x = {f: 1000 * (t + 1) + j for j, f in enumerate(names)}
        del inputs[:]
        e.explain_one(x, t, verbose=False)
        t += 1
        if not inputs:
            continue
        done += 1
        window = list(st.get_data()[0])
        if len(inputs) != len(window) * d * n or len(window) != m:
            undecodable += 1
            continue
        pos = {(j, r[f]): p_ for p_, r in enumerate(window) for j, f in enumerate(names)}
        for c_, xi in enumerate(inputs):
            i, step = c_ // (d * n), (c_ // n) % d
            if step == d - 1:
                continue                                      # nothing imputed in the last step of a chain
            src_ = {pos.get((j, xi[f])) for j, f in enumerate(names)}
            judged += 1
            if None in src_:
                fails.append(("background-not-current", f"{tag} observation {t}: evaluated input {xi!r} carries a value no CURRENTLY stored "
                                                        f"observation has"))
                continue
            src_.discard(i)
            if len(src_) > 1:
                fails.append(("joint-mixed-rows", f"{tag}: one joint evaluation mixes stored rows {sorted(src_)} (explained row {i})"))
                continue
            r = src_.pop() if src_ else i
            rowc[("row", min(step, 2))][bucket(r, m)] += 1
    run.ok(judged, kind="draws:interval-user-storage")
    run.count("interval-big-undecodable-explanations", undecodable)
    ct = CellTests(max(1, B * len(rowc)), eps=EPS / (2 * len(DRAW_CFGS) + 64))
    for fam, cnt in sorted(rowc.items(), key=repr):
        tot = sum(cnt.values())
        for b in range(B):
            size = 1 if m <= 7 else len([r for r in range(m) if bucket(r, m) == b])
            r = ct.test(cnt.get(b, 0), tot, size / m, f"{tag} {fam} background row{' bucket' if m > 7 else ''} {b} (position in the storage, oldest first)")
            if r:
                fails.append(("row-distribution", r))
            if cnt.get(b):
                run.nontriv(("interval-big", tag, repr(fam), b))
    run.count("cell-tests", ct.done)
    run.notes[f"draws {tag}"] = {"explanations": done, "evaluations_judged": judged, "row_families": len(rowc), "min_p": ct.min_p, "mdd": ct.max_mdd}
    seen = set()
    for mech, msg in fails:
        if mech not in seen:
            seen.add(mech)
            run.violation(f"interval:{mech}", msg + f" ({done} explanations)", {"config": cfgspec, "runs": runs, "seed": seed})


def size_sweep_case(run, sizes, runs, seed):
    """Thin slices of the size axis: for EVERY storage length in `sizes` the background row drawn by the marginal
    imputer (both strategies) must be uniform - coarse power per size, but no size is left out."""
    from ixai.storage import BatchStorage
    from ixai.imputer import MarginalImputer
    random.seed(seed)
    np.random.seed(seed)
    seen = []

    def model(xx):
        seen.append(xx)
        return {"output": 0.0}
    x = {"a": -1.0, "b": -2.0}
    fails = []
    ct = CellTests(2 * sum(sizes), eps=EPS / (2 * len(OUTCOME_CFGS) + 64))
    for m in sizes:
        st = BatchStorage(store_targets=False)
        for t in range(m):
            st.update({"a": float(t), "b": float(t) + 0.5})
        for strat in ("joint", "product"):
            imp = MarginalImputer(model, strat, st)
            del seen[:]
            imp.impute(["a", "b"] if strat == "joint" else ["a"], x, runs)
            cnt = collections.Counter(int(xi["a"]) for xi in seen)
            run.ok(runs, kind="size-sweep")
            for r in range(m):
                res = ct.test(cnt.get(r, 0), runs, 1 / m, f"size-sweep storage length {m} ({strat}) row {r}")
                if res:
                    fails.append(("row-distribution", res))
            run.nontriv(("size-sweep", m, strat))
    run.count("cell-tests", ct.done)
    run.notes["size-sweep"] = {"sizes": [min(sizes), max(sizes)], "draws_per_size": runs, "min_p": ct.min_p, "mdd": ct.max_mdd}
    seen_m = set()
    for mech, msg in fails:
        key = msg.split(" row ")[0]
        if key not in seen_m and len(seen_m) < 3:
            seen_m.add(key)
            run.violation("imputer:" + mech, msg, {"sizes": sizes, "runs": runs, "seed": seed})



def wide_case(run, seed, thorough):
    """Thin slice 'many features x large (power-of-two) storage': the row behind EVERY feature position must be uniform and, under
    the product strategy, independent between positions (entropy shared between positions runs out for late features)."""
    from ixai.storage import BatchStorage
    from ixai.imputer import MarginalImputer
    random.seed(seed)
    np.random.seed(seed)
    seen = []

    def model(xx):
        seen.append(xx)
        return {"output": 0.0}
    cfgs = [(8, 64), (12, 128), (9, 1024), (16, 4096), (20, 100), (13, 1000), (24, 2)] if not thorough else \
        [(8, 64), (12, 128), (9, 1024), (16, 4096), (20, 100), (13, 1000), (24, 2), (32, 65536), (40, 3), (28, 512), (64, 16)]
    runs = 240 if not thorough else 2000
    ct = CellTests(sum(2 * (4 * d + 16 * (d - 1)) for d, m in cfgs), eps=EPS / (2 * len(OUTCOME_CFGS) + 64))
    fails = []
    for d, m in cfgs:
        names = [f"w{j}" for j in range(d)]
        st = BatchStorage(store_targets=False)
        for t in range(m):
            st.update({n: t * 100 + j for j, n in enumerate(names)})
        x = {n: -1 - j for j, n in enumerate(names)}
        nb = min(4, m)
        for strat in ("joint", "product"):
            imp = MarginalImputer(model, strat, st)
            del seen[:]
            imp.impute(list(names), x, runs)
            if len(seen) != runs:
                run.ok(kind="wide")
                run.violation("imputer:evaluation-count", f"{d} features, storage length {m} ({strat}): {len(seen)} evaluations for n_samples={runs}",
                              {"d": d, "m": m, "strategy": strat})
                continue
            rows = [[int(xi[n]) // 100 for n in names] for xi in seen]
            run.ok(runs, kind="wide")
            if strat == "joint" and any(len(set(r)) != 1 for r in rows):
                fails.append(("joint-mixed-rows", f"{d} features, storage length {m} (joint): one evaluation mixes several stored rows"))
            for j in range(d):
                cnt = collections.Counter(r[j] * nb // m for r in rows)
                for b in range(nb):
                    size = len([t for t in range(m) if t * nb // m == b])
                    res = ct.test(cnt.get(b, 0), runs, size / m, f"{d} features, storage length {m} ({strat}): row bucket {b} of feature position {j}")
                    if res:
                        fails.append(("row-distribution", res))
                if strat == "product" and j >= 1 and m % nb == 0:
                    pc = collections.Counter((r[j - 1] * nb // m, r[j] * nb // m) for r in rows)
                    for a in range(nb):
                        for b in range(nb):
                            res = ct.test(pc.get((a, b), 0), runs, 1 / (nb * nb), f"{d} features, storage length {m} (product): row buckets ({a},{b}) of "
                                                                                   f"feature positions {j - 1},{j} (independent draws)")
                            if res:
                                fails.append(("row-pair-distribution", res))
            run.nontriv(("wide", d, m, strat))
    run.count("cell-tests", ct.done)
    seen_m = set()
    for mech, msg in fails:
        key = msg.split(": row")[0]
        if key not in seen_m and len(seen_m) < 3:
            seen_m.add(key)
            run.violation("imputer:" + mech, msg, {"wide": True, "runs": runs, "seed": seed})


# ------------------------------------------------------------------------------------------------
EXACT_CFGS = [
    ("sage", "joint", 3, 3, 1), ("sage", "product", 3, 2, 1), ("sage", "joint", 2, 4, 2), ("sage", "product", 2, 3, 2),
    ("sage", "joint", 4, 2, 1), ("pfi", "joint", 2, 5, 2), ("pfi", "product", 3, 3, 1), ("pfi-override", "joint", 2, 3, 2),
    ("sage-override", "product", 2, 2, 2), ("batch", "joint", 3, 3, 1), ("batch", "product", 2, 4, 1), ("interval", "joint", 2, 2, 1),
    ("sage", "joint", 1, 3, 1), ("pfi", "product", 1, 2, 2), ("batch", "joint", 1, 3, 2), ("interval", "joint", 1, 2, 1),      # single-feature explainers
    ("interval", "product", 2, 3, 1), ("interval-update", "joint", 2, 2, 1), ("interval-update", "product", 2, 3, 1), ("original", None, 2, 3, 1), ("original", None, 3, 2, 1), ("original", None, 2, 2, 2),
]

# the storage_length argument / the storage content say something else than the background population of the statement
EXACT_VARIANT_CFGS = [
    ("interval-big", "joint", 2, 3, 1), ("original-holdout", None, 2, 2, 1), ("interval-update-big", "joint", 2, 2, 1), ("original-holdout", None, 3, 2, 1),
    ("interval-big", "product", 2, 3, 1), ("original-holdout", None, 2, 2, 2), ("interval-big", "joint", 3, 2, 1), ("interval-update-big", "product", 2, 3, 1),
    ("interval-big", "joint", 2, 2, 1),
]
OUTCOME_VARIANT_CFGS = [("interval-big", "joint", 2, 3, 1), ("original-holdout", None, 2, 3, 1)]
DRAW_VARIANT_CFGS = [("original-holdout", None, 3, 4, 2), ("original-holdout", None, 2, 20, 1), ("original-holdout", None, 2, 6, 1)]

def exact_case(run, idx, cfgspec, seed):
    """The implementation's exact outcome law (all its draws enumerated with their weights) against the exact law implied by
    uniform feature orders and uniform background rows: equality of two finite distributions over rationals."""
    from ixai.explainer import IncrementalSage, IncrementalPFI, BatchSage, IntervalSage
    from ixai.storage import BatchStorage, IntervalStorage
    from ixai.imputer import MarginalImputer
    from ..exactlaw import exact_law, Budget
    kind, strat, d, m, n = cfgspec
    override = kind.endswith("-override")
    kind, big, hold = variant_flags(kind.replace("-override", ""))
    names = make_names("str", d)
    # (every other multi-label game uses a model whose LABEL SET depends on the input: a missing label counts as 0 in a mean)
    model = Models(("grow" if idx % 2 == 1 else "multi") if kind in ("sage", "batch") else "scalar", names, exact=True)
    loss = Losses("hash", exact=True)
    rows = [{f: 1000 * (t + 1) + j for j, f in enumerate(names)} for t in range(m)]
    ys = [t - 1 for t in range(m)]
    x = {f: 900000 + j for j, f in enumerate(names)}
    if idx % 4 == 1:
        import collections
        x = collections.Counter(x)           # observations may be dict subclasses (Counter.update() adds instead of replacing)
    y = 7
    tag = f"exact/{kind}{'(override)' if override else ''}{variant_tag(big, hold, idx, m)}/{strat}/d={d}/m={m}/n={n}"
    if kind == "sage":
        dist = chain_dist(names, x, y, rows, n, strat, model, loss, loss.one(y, normalize(model.one(x))))
    elif kind == "pfi":
        dist = pfi_dist(names, x, y, rows, n, model, loss)
    elif kind == "batch":
        dist = chain_dist(names, x, y, rows, n, strat, model, loss, loss.one(y, mean_out([model.one(x)])))
    elif kind == "interval":
        mp = mean_out([model.one(r) for r in rows])
        dist = convolve_mean([chain_dist(names, r, yy, rows, n, strat, model, loss, loss.one(yy, mp)) for r, yy in zip(rows, ys)])
    elif kind == "interval-update":
        # the call stores (x, y) first: the explained window AND the background are the last m observations incl. the new one
        win = rows[1:] + [x]
        wys = ys[1:] + [y]
        mp = mean_out([model.one(r) for r in win])
        dist = convolve_mean([chain_dist(names, r, yy, win, n, strat, model, loss, loss.one(yy, mp)) for r, yy in zip(win, wys)])
    else:
        mp = mean_out([model.one(r) for r in rows])
        dist = convolve_mean([original_obs_dist(names, r, yy, rows, n, model, loss, loss.one(yy, mp)) for r, yy in zip(rows, ys)])
    random.seed(seed)
    np.random.seed(seed)
    if kind == "interval-update":
        import copy
        st = IntervalStorage(size=m, store_targets=True)
        for r, yy in zip(rows, ys):
            st.update(r, yy)
        if big:
            run.count("interval-storage-exceeds-storage_length")
        base = IntervalSage(model, names, loss, n_inner_samples=n, interval_length=1, storage_length=(short_length(idx, m) if big else m),
                            storage=st, imputer=(None if big and strat == "joint" else MarginalImputer(model, strat, st)))

        def scen():
            e2 = copy.deepcopy(base)
            r = e2.explain_one(dict(x), y, verbose=False)          # update_storage=True (default) and due (interval 1)
            return tuple(r[f] for f in names)
    elif kind in ("sage", "pfi"):
        st = BatchStorage(store_targets=False)
        for r in rows:
            st.update(r)
        cls = IncrementalSage if kind == "sage" else IncrementalPFI
        e = cls(model, loss, names, smoothing_alpha=1, storage=st, imputer=MarginalImputer(model, strat, st),
                n_inner_samples=(1 if override else n), dynamic_setting=True)
        e.explain_one({f: 5 + j for j, f in enumerate(names)}, 1, update_storage=False)
        kwc = {"n_inner_samples": n} if override else {}

        def scen():
            r = e.explain_one(x, y, update_storage=False, **kwc)
            return tuple(r[f] for f in names)
    elif kind == "batch":
        st = BatchStorage(store_targets=True)
        for r, yy in zip(rows, ys):
            st.update(r, yy)
        e = BatchSage(model, names, loss, n_inner_samples=n, storage=st, imputer=MarginalImputer(model, strat, st))

        def scen():
            r = e.explain_many([x], [y], verbose=False)
            return tuple(r[f] for f in names)
    elif kind == "interval":
        st = IntervalStorage(size=m, store_targets=True)
        for r, yy in zip(rows[:-1], ys[:-1]):
            st.update(r, yy)
        if big:
            run.count("interval-storage-exceeds-storage_length")
        e = IntervalSage(model, names, loss, n_inner_samples=n, interval_length=1, storage_length=(short_length(idx, m) if big else m),
                         storage=st, imputer=(None if big and strat == "joint" else MarginalImputer(model, strat, st)))
        e.explain_one(rows[-1], ys[-1], verbose=False)

        def scen():
            r = e.explain_one(rows[-1], ys[-1], update_storage=False, force_explain=True, verbose=False)
            return tuple(r[f] for f in names)
    else:
        e = holdout_batch_sage(run, model, names, loss, n, idx, m) if hold else BatchSage(model, names, loss, n_inner_samples=n)

        def scen():
            r = e.explain_many_original(rows, ys, verbose=False)
            return tuple(r[f] for f in names)
    try:
        lawd, runs_x, fsites = exact_law(scen, max_runs=60000)
    except Budget:
        run.count("exact-law-budget-exceeded")
        return
    except NotImplementedError as ex:      # a form of np.random.* the scripted generators do not model: this sub-monitor cannot judge
        run.count("exact-law-unsupported-draw-form")
        run.notes["exact-law-unsupported"] = str(ex)[:200]
        return
    except TypeError as ex:
        run.other_error(f"C15:{type(ex).__name__}:{str(ex)[:50]}")
        return
    from ..exactlaw import UNRESOLVED
    if float(lawd.pop(UNRESOLVED, 0)) > 0:         # (a retry loop in the implementation's draws: not enumerable to the end)
        run.count("exact-law-budget-exceeded")
        return
    run.ok(kind="exact-law:" + kind)
    kind = "interval" if kind == "interval-update" else kind
    run.count("exact-law-executions", runs_x)
    run.notes[tag] = {"outcomes": len(dist), "executions_enumerated": runs_x, "float_draw_sites": fsites}
    for o in lawd:
        run.nontriv(("exactlaw", tag, tuple(str(v) for v in o)))
    if fsites:
        tol = Fraction(1, 10 ** 9)
        same_law = set(lawd) == set(dist) and all(abs(lawd[o] - dist[o]) <= tol for o in dist)
    else:
        same_law = lawd == dict(dist)
    if not same_law:
        worst = max(set(lawd) | set(dist), key=lambda o: abs(lawd.get(o, 0) - dist.get(o, 0)))
        run.violation(f"{'original-mode' if kind == 'original' else kind}:exact-outcome-law",
                      f"{tag}: the implementation's exact outcome law differs from the law of uniform orders / uniform rows; e.g. outcome "
                      f"{tuple(float(v) for v in worst)} has probability {lawd.get(worst, 0)} instead of {dist.get(worst, 0)} "
                      f"({len(lawd)} vs {len(dist)} outcomes, {runs_x} executions enumerated)", {"config": cfgspec, "seed": seed})


def exact_rows_case(run, sizes):
    """Exact law of the row drawn by the marginal imputer for EVERY storage length in sizes."""
    from ixai.storage import BatchStorage
    from ixai.imputer import MarginalImputer
    from ..exactlaw import exact_law, Budget
    seen = []

    def model(xx):
        seen.append(xx)
        return {"output": 0.0}
    for m in sizes:
        st = BatchStorage(store_targets=False)
        for t in range(m):
            st.update({"a": float(t), "b": float(t) + 0.5})
        for strat in ("joint", "product"):
            imp = MarginalImputer(model, strat, st)

            def scen():
                del seen[:]
                imp.impute(["a", "b"] if strat == "joint" else ["a"], {"a": -1.0, "b": -2.0}, 1)
                return int(seen[0]["a"])
            try:
                lawd, runs_x, _ = exact_law(scen, max_runs=40 * m + 200)
            except Budget:
                run.count("exact-law-budget-exceeded")
                continue
            except NotImplementedError:
                run.count("exact-law-unsupported-draw-form")
                continue
            from ..exactlaw import UNRESOLVED
            un_ = lawd.pop(UNRESOLVED, 0)
            if float(un_) > 1e-10:
                run.count("exact-law-budget-exceeded")
                continue
            run.ok(kind="exact-law:rows")
            run.count("exact-law-executions", runs_x)
            if set(lawd) != set(range(m)) or any(abs(q - Fraction(1, m)) > Fraction(1, 10 ** 9) for q in lawd.values()):
                bad = {r: float(lawd.get(r, 0)) for r in range(m) if abs(lawd.get(r, 0) - Fraction(1, m)) > Fraction(1, 10 ** 9)}
                run.violation("imputer:exact-row-law", f"storage length {m} ({strat}): rows are drawn with exact probabilities {bad} "
                                                       f"instead of 1/{m}", {"storage_length": m, "strategy": strat})
            run.nontriv(("exact-rows", m, strat))



def main(run):
    run.rule = ("(a) draw level: feature order and source row of every imputed feature decoded from the model inputs (unique "
                "feature values) over R calls per configuration {IncrementalSage, IncrementalPFI, BatchSage.explain_many, "
                "explain_many_original} x {joint, product} x storage size m in {2..7, 50, 100, 1000 (bucketed)}; exact binomial "
                "cells: each of d! orders 1/d!, each row 1/m per chain position / per explained-observation position, row pairs "
                "across features (product) and across consecutive inner samples 1/m^2; (a2) feature orders at high repetition counts "
                "(6e4 quick / 6e5 thorough calls per configuration, d in 2..5; thorough also 2.5e6 / 5e6 orders for d in 3, 5, 6) through a recording imputer, judged per order (1/d!) and per position marginal (feature f removed pos-th, 1/d); (a4) a sweep over EVERY storage length 1..70 (and 127..129, 255..257, 1025) with coarse row-uniformity cells; (a3) MOVING storages (interval, "
                "always-insert geometric, uniform, sequence) updated between explanations: every imputed value must stem from the "
                "storage content current at that call and its position be uniform; (b) outcome level: per-call contribution "
                "vectors observed through importance_values with alpha=1 in dynamic mode and a frozen storage (or the batch return "
                "value) against the EXACT distribution from enumerating all permutations and background tuples (tiny games, exact "
                "rationals), every outcome a binomial cell, impossible outcomes flagged, mean vs exact expectation (Shapley value / "
                "expected loss increase) with a Hoeffding radius; false-alarm budget 1e-9 per run; evaluations = explained calls; "
                "non-trivial = distinct orders / row cells / outcome vectors observed")
    run.assumptions = ["calls are independent draws (storage frozen with update_storage=False, generators seeded once per configuration)",
                       "false-alarm probability <= 1e-9 per run; a bias below the minimal detectable deviation in notes can be missed",
                       "storage sizes / games other than the listed ones are not exercised"]
    run.require_count("draw-level-row-cells", "draw-level-pair-cells", "interval-storage-exceeds-storage_length",
                      "original-holdout-nonempty-storage")
    run.require("ixai/explainer/sage/incremental.py:IncrementalSage.explain_one", "ixai/explainer/pfi.py:IncrementalPFI.explain_one",
                "ixai/explainer/sage/batch.py:BatchSage.explain_many", "ixai/explainer/sage/batch.py:BatchSage.explain_many_original",
                "ixai/imputer/marginal_imputer.py:MarginalImputer.impute")
    sh, nsh = run.shard
    grnd = random.Random(run.seed + 4242)       # extra configurations drawn from VERIF_SEED (identical in every shard)
    extra_out, extra_draw = [], []
    for _ in range(2):
        kind = grnd.choice(["sage", "pfi", "batch", "sage-override"])
        d_, m_ = grnd.choice([2, 3]), grnd.choice([2, 3, 4])
        n_ = grnd.choice([1, 2]) if d_ * m_ <= 8 else 1
        extra_out.append((kind, grnd.choice(["joint", "product"]), d_, m_, max(n_, 2) if kind.endswith("override") else n_))
        extra_draw.append((grnd.choice(["sage", "pfi", "batch"]), grnd.choice(["joint", "product"]), grnd.choice([2, 3, 4]),
                           grnd.choice([2, 3, 4, 6, 30, 300]), grnd.choice([1, 2, 3])))
    jobs = [("outcome", i, c) for i, c in enumerate(OUTCOME_CFGS + extra_out)] + [("draw", i, c) for i, c in enumerate(DRAW_CFGS + extra_draw)] \
        + [("order", i, c) for i, c in enumerate(ORDER_CFGS)] \
        + ([("order-deep", i, c) for i, c in enumerate(ORDER_DEEP_CFGS)] if run.tier == "thorough" else []) + [("moving", i, c) for i, c in enumerate(MOVING_CFGS)] \
        + [("wide", 0, None), ("sizes", 0, list(range(1, 36))), ("sizes", 1, list(range(36, 71)) + [127, 128, 129, 255, 256, 257, 1025])] \
        + [("exact", i, c) for i, c in enumerate(EXACT_CFGS)] + [("exact-rows", 0, list(range(1, 41))), ("exact-rows", 1, list(range(41, 81)) + [127, 128, 129, 255, 256, 257])] \
        + [("exact", len(EXACT_CFGS) + i, c) for i, c in enumerate(EXACT_VARIANT_CFGS)] \
        + [("interval-big", i, c) for i, c in enumerate(INTERVAL_BIG_CFGS)] \
        + [("draw", len(DRAW_CFGS) + 2 + i, c) for i, c in enumerate(DRAW_VARIANT_CFGS)] \
        + [("outcome-variant", len(OUTCOME_CFGS) + 2 + i, c) for i, c in enumerate(OUTCOME_VARIANT_CFGS)]
    # every shard must touch every anchor: shards run a slice of jobs, coverage is merged by the parent
    for j, (what, i, c) in enumerate(jobs):
        if j % nsh != sh:
            continue
        seed = run.shard_seed * 31 + j
        if what == "outcome":
            outcome_case(run, i, c, R_OUTCOME[run.tier], seed)
        elif what == "outcome-variant":
            outcome_case(run, i, c, R_OUTCOME[run.tier] // 2, seed)
        elif what == "order":
            order_case(run, i, c, R_ORDER[run.tier], seed)
        elif what == "order-deep":
            order_case(run, 100 + i, c, R_ORDER_DEEP[c[0]], seed)
        elif what == "moving":
            moving_case(run, i, c, R_MOVING[run.tier], seed)
        elif what == "exact":
            exact_case(run, i, c, seed)
        elif what == "exact-rows":
            exact_rows_case(run, c)
        elif what == "interval-big":
            interval_big_case(run, i, c, R_INTERVAL_BIG[run.tier], seed)
        elif what == "wide":
            wide_case(run, seed, run.tier == "thorough")
        elif what == "sizes":
            size_sweep_case(run, c, 3000 if run.tier == "quick" else 40000, seed)
        else:
            draw_case(run, i, c, R_DRAW[run.tier], seed)
