"""C05 - BatchSage / IntervalSage: efficiency over the explained data, per-feature averages, interval schedule."""
import random

import numpy as np

from ..probes import Clock, Models, Losses, make_names
from ..harness import storage_proxy, ImputerProxy
from ..probes import InjectedFault
from ..refs import mean_out
from ..explref import decoded_subset
from ..qnum import Q

SHARDS = {"quick": 1, "thorough": 16}
N_BATCH = {"quick": 1200, "thorough": 4000}
N_INTERVAL = {"quick": 400, "thorough": 1500}


class Bad(Exception):
    def __init__(self, mech, msg):
        super().__init__(msg)
        self.mech = mech


def total(vals):
    t = 0
    for v in vals:
        t = t + v
    return t


def ref_imputer_mode(names, model, loss, log, data, chains=True):
    """Reference for explain_many from its event log.  data = [(x, y)] the explained observations.
    chains=False: the imputer is the explainer's own (no callback traffic of it is logged): only the batch evaluation
    (= the explained data) and the efficiency are derived."""
    batches = [e for e in log if e[0] == "model_batch"]
    if len(batches) != 1:
        raise Bad("batch-evaluation", f"{len(batches)} batch evaluations of the model, expected 1")
    if not (batches[0][1] == [x for x, _ in data]):
        raise Bad("explained-data", f"batch evaluation got {batches[0][1]!r}, explained data is {[x for x, _ in data]!r}")
    mp = mean_out([model.one(x) for x, _ in data])
    if not chains:
        return None, total(loss.one(y, mp) - loss.one(y, model.one(x)) for x, y in data) / len(data), []
    groups = [e for e in log if e[0] == "impute.ret"]
    calls = [e for e in log if e[0] == "impute.call"]
    d = len(names)
    if len(groups) != d * len(data):
        raise Bad("chain-count", f"{len(groups)} imputation steps for {len(data)} observations x {d} features")
    acc = {n: 0 for n in names}
    orders = []
    for i, (x, y) in enumerate(data):
        prev = loss.one(y, mp)
        remaining = frozenset(names)
        order = []
        for (_, subset, inputs, results), call in zip(groups[i * d:(i + 1) * d], calls[i * d:(i + 1) * d]):
            s = frozenset(subset)
            if not (call[2] == x):
                raise Bad("chain-instance", f"observation {i}: imputer was called for instance {call[2]!r}, expected {x!r}")
            for xi, res in zip(inputs, results):
                # (the explained data may be its own background, so an imputed value can coincide with x's)
                if set(xi.keys()) != set(x.keys()) or any(not (xi[k] == x[k]) for k in x if k not in s):
                    raise Bad("chain-instance", f"observation {i}: model input differs from it outside the imputed set {sorted(map(repr, s))}: {xi!r}")
                if not (res == model.one({k: (xi[k] if k in s else x[k]) for k in x})):
                    raise Bad("prediction", f"observation {i}: imputed prediction is not the model's output for x with {sorted(map(repr, s))} replaced")
            diff = remaining - s
            if len(diff) != 1 or not s < remaining:
                raise Bad("chain", f"observation {i}: sets not a chain")
            f = next(iter(diff))
            remaining = s
            cur = loss.one(y, mean_out(list(results)))
            acc[f] = acc[f] + (prev - cur)
            prev = cur
            order.append(f)
        orders.append(tuple(order))
    n = len(data)
    eff = total(loss.one(y, mp) - loss.one(y, model.one(x)) for x, y in data) / n
    return {f: v / n for f, v in acc.items()}, eff, orders


def ref_original_mode(names, model, loss, log, data, n_inner):
    batches = [e for e in log if e[0] == "model_batch"]
    if len(batches) != 1 or not (batches[0][1] == [x for x, _ in data]):
        raise Bad("batch-evaluation", "original mode must evaluate the whole data set once for the baseline")
    mp = mean_out([model.one(x) for x, _ in data])
    ins = [e[1] for e in log if e[0] == "model"]
    d, n = len(names), len(data)
    if len(ins) != n * d * n_inner:
        raise Bad("evaluation-count", f"{len(ins)} single evaluations, expected {n}*{d}*{n_inner}")
    rows = [x for x, _ in data]
    acc = {f: 0 for f in names}
    ambiguous = False
    srcs = []
    for i, (x, y) in enumerate(data):
        prev = loss.one(y, mp)
        known = frozenset()
        for j in range(d):
            chunk = ins[(i * d + j) * n_inner:(i * d + j + 1) * n_inner]
            inter = frozenset(names)
            for xi in chunk:
                same = frozenset(f for f in names if xi[f] == x[f])
                inter &= same
                # unrevealed features must come from ONE row of the data set
                other = [f for f in names if f not in same]
                if other:
                    cands = [r for r, row in enumerate(rows) if all(row[f] == xi[f] for f in other)]
                    if not cands:
                        raise Bad("background-row", f"observation {i}: unrevealed features {other} are not those of one data row: {xi!r}")
                    srcs.append((i, cands[0]))
                else:
                    srcs.append((i, i))
            cur = loss.one(y, mean_out([model.one(xi) for xi in chunk]))
            if len(inter) == j + 1 and known < inter:
                f = next(iter(inter - known))
                known = inter
            elif j + 1 < d and inter == frozenset(names):
                ambiguous = True      # every inner sample drew the observation's own row: order not observable
                f = None
            else:
                raise Bad("chain", f"observation {i} step {j}: revealed set {sorted(map(repr, inter))} after {sorted(map(repr, known))}")
            if f is not None:
                acc[f] = acc[f] + (prev - cur)
            prev = cur
    eff = total(loss.one(y, mp) - loss.one(y, model.one(x)) for x, y in data) / n
    return (None if ambiguous else {f: v / n for f, v in acc.items()}), eff, srcs


def main(run):
    from ixai.explainer import BatchSage, IntervalSage
    from ixai.storage import BatchStorage, IntervalStorage
    from ixai.imputer import MarginalImputer
    run.rule = ("exact-rational (Q) execution of BatchSage.explain_many / explain_many_original / explain_one and "
                "IntervalSage.explain_one over random data sets (1..8 rows, d 1..4, n_inner 1..3, scalar/multi/growing-label "
                "models, hash/sq losses); (i) sum of values == mean_i[loss(y_i, mean prediction) - loss(y_i, model(x_i))], "
                "(ii) each value == average chain contribution with chains read off the callback traffic, (iii) IntervalSage "
                "schedule as an offline trace check over random force_explain / update_storage / interval_length / "
                "storage_length sequences (recompute iff ordinal % interval_length == 0 or forced; otherwise zero model and loss "
                "evaluations and an unchanged result; recompute over exactly the last storage_length stored observations in "
                "order; also explainers built WITHOUT a storage argument (the default window of storage_length observations), with "
                "interval_length > storage_length in half of them, with the default imputer (window + efficiency judged) or a "
                "DefaultImputer proxy (chains judged, too)); evaluations = explained calls judged; non-trivial = calls with >= 2 distinct non-zero values")
    run.assumptions = ["loss proxy accepts positional and keyword calls (the call convention belongs to C15)",
                       "storage non-empty at a recompute; original mode: explained names cover every feature the model reads"]
    run.require("ixai/explainer/sage/batch.py:BatchSage.explain_many",
                "ixai/explainer/sage/batch.py:BatchSage.explain_many_original",
                "ixai/explainer/sage/interval.py:IntervalSage.explain_one")
    run.require_count("interval-default-storage-configs", "interval-default-storage-recomputes-interval-longer-than-window")
    rnd = random.Random(run.shard_seed)
    # ---------------- batch modes
    for i in range(N_BATCH[run.tier]):
        d, m, n_inner = rnd.choice([1, 2, 3, 4]), rnd.choice([1, 2, 3, 5, 8]), rnd.choice([1, 2, 3])
        if i % 40 == 7:        # data sets around block sizes (255 / 256 / 257 / 512 rows), small games
            d, m, n_inner = rnd.choice([1, 2]), [255, 256, 257, 512, 256][(i // 40) % 5], 1
        names = make_names(rnd.choice(["str", "int", "float"]), d)
        clock = Clock()
        model = Models(rnd.choice(["scalar", "multi", "grow", "ignore", "positional", "coarse", "coarse", "top2", "top2"]), names, exact=True, clock=clock)
        loss = Losses(rnd.choice(["hash", "hash", "sq"]), exact=True, clock=clock)
        river_loss = i % 6 == 4        # a river regression metric as the loss (float arithmetic, compared with a tolerance)
        if river_loss:
            from ..probes import RiverLoss
            model = Models(rnd.choice(["scalar", "coarse", "linear", "positional"]), names, exact=False, clock=clock)
            loss = RiverLoss(rnd.choice(["RMSE", "MAE", "MSE", "SMAPE"]))
        mode = rnd.choice(["many", "original", "explain_one", "explain_one_original"])
        # data may carry features that are not explained (the model reads them); not in original mode (statement's precondition)
        extras = [f"extra{j}" for j in range(rnd.choice([0, 0, 1, 2]))] if "original" not in mode else []
        strat = rnd.choice(["joint", "product", "joint", "product", "default"])      # (BatchSage together with a DefaultImputer, too)
        seed = rnd.randrange(2 ** 31)
        random.seed(seed)
        np.random.seed(seed)
        st = storage_proxy(BatchStorage, clock)(store_targets=True)
        window = None
        if mode.startswith("explain_one") and i % 8 == 7:
            # a BOUNDED storage handed to BatchSage (a sliding window): every call explains the window's content of that moment
            window = rnd.choice([1, 2, 3, 4])
            st = storage_proxy(IntervalStorage, clock)(size=window, store_targets=True)
        if strat == "default":
            from ixai.imputer import DefaultImputer
            imp = ImputerProxy(DefaultImputer(model, {f: -(j + 1) for j, f in enumerate(names)}), clock)
        else:
            imp = ImputerProxy(MarginalImputer(model, strat, st), clock)
        data = [({f: 1000 * (t + 1) + j for j, f in enumerate(names + extras)}, rnd.randrange(-4, 5)) for t in range(m)]
        replay = {"mode": mode, "unexplained_features": extras, "d": d, "rows": m, "n_inner": n_inner, "strategy": strat, "names": names, "seed": seed, "window_storage": window,
                  "model": model.kind, "loss": ("river:" if river_loss else "") + loss.kind}
        try:
            e = BatchSage(model, names, loss.as_argument() if river_loss else loss, n_inner_samples=n_inner, storage=st, imputer=imp)
            override = rnd.choice([None, None, 1, 2])
            used = override or n_inner
            if mode in ("many", "original"):
                bg = [({f: 500000 + 1000 * t + j for j, f in enumerate(names + extras)}, 0) for t in range(rnd.choice([1, 3]))]
                if mode == "many":
                    for x, y in bg:
                        st.update(x, y)       # background for the imputer; explained data is separate
                clock.reset()
                fn = e.explain_many if mode == "many" else e.explain_many_original
                ret = fn([x for x, _ in data], [y for _, y in data], n_inner_samples=override, verbose=False)
                expl = data
            else:
                for x, y in data[:-1]:
                    e.update_storage(x, y)
                clock.reset()
                if i % 3 == 1:            # optional arguments passed positionally in the documented order
                    ret = e.explain_one(data[-1][0], data[-1][1], override, mode == "explain_one_original", False)
                else:
                    ret = e.explain_one(data[-1][0], data[-1][1], n_inner_samples=override,
                                        original_sage=(mode == "explain_one_original"), verbose=False)
                expl = data if window is None else data[-window:]
                upd = [ev for ev in clock.log if ev[0] == "storage.update"]
                if len(upd) != 1 or not (upd[0][1] == data[-1][0]):
                    raise Bad("explain-one-storage", "BatchSage.explain_one must store the observation once before explaining")
        except Bad as b:
            run.ok(kind=mode)
            run.violation(f"batch:{b.mech}", f"{b} | {replay}", replay)
            continue
        except TypeError as ex:
            run.other_error(f"C15:{type(ex).__name__}:{str(ex)[:60]}")
            continue
        def judge_batch(ret, log, expl, used):
            if "original" in mode:
                per, eff, srcs = ref_original_mode(names, model, loss, log, expl, used)
                for s_ in srcs:
                    run.see("original-background-row", s_)
            else:
                per, eff, orders = ref_imputer_mode(names, model, loss, log, expl)
                for o in orders:
                    run.see("feature-order", (d, tuple(map(repr, o))))
            run.ok(kind=mode)
            tot = total(ret.values())
            if set(ret.keys()) != set(names):
                raise Bad("keys", f"result keys {list(ret)!r}")
            tolx = 1e-9 * max(1.0, loss.max_abs) if river_loss else 0
            if not (abs(tot - eff) <= tolx):
                raise Bad("efficiency", f"sum of values {tot!r} != mean explained loss {eff!r}" + (f" (loss: river {loss.kind})" if river_loss else ""))
            if per is None:
                run.count("original-mode-order-ambiguous")
            elif not all(abs(ret[f] - per[f]) <= tolx for f in names):
                raise Bad("per-feature-average", f"values {ret!r} != average chain contributions {per!r}")
            if not (ret == e.importance_values):
                raise Bad("return-value", "returned dict differs from importance_values")
            return tot, eff
        log = list(clock.log)
        try:
            tot, eff = judge_batch(ret, log, expl, used)
            if len({v for v in ret.values() if v != 0}) >= 2:
                run.nontriv(("batch", run.shard[0], i))
                if len(run.samples) < 2 and d >= 3:
                    run.sample({**replay, "data": expl, "values": ret, "sum": tot, "mean_explained_loss": eff})
            if mode.startswith("explain_one") and i % 4 == 3 and strat != "default" and not extras:
                # HISTORY: the same explainer goes on explaining observation after observation (every call is a full
                # recomputation over the storage content of that moment)
                for t2 in range(3):
                    x2, y2 = {f: 1000 * (m + t2 + 1) + j for j, f in enumerate(names)}, rnd.randrange(-4, 5)
                    data.append((x2, y2))
                    clock.reset()
                    ret = e.explain_one(x2, y2, n_inner_samples=override, original_sage=(mode == "explain_one_original"), verbose=False)
                    judge_batch(ret, list(clock.log), list(data) if window is None else data[-window:], used)
                    run.count("batch-explain-one-histories" if window is None else "batch-explain-one-histories-on-a-window")
        except Bad as b:
            run.violation(f"batch:{b.mech}", f"{b} | {replay}", replay)
    # ---------------- interval schedule + efficiency
    for i in range(N_INTERVAL[run.tier]):
        d, n_inner = rnd.choice([1, 2, 3]), rnd.choice([1, 2])
        il, sl = rnd.choice([1, 2, 3, 7]), rnd.choice([1, 2, 5, 9])
        names = make_names("str", d)
        clock = Clock()
        model = Models(rnd.choice(["scalar", "multi", "coarse", "top2"]), names, exact=True, clock=clock)
        loss = Losses("hash", exact=True, clock=clock)
        seed = rnd.randrange(2 ** 31)
        random.seed(seed)
        np.random.seed(seed)
        # a third of the explainers is built WITHOUT a storage argument: the explainer's own window of storage_length
        # observations; interval_length and storage_length are independent parameters (in half of these configurations the
        # interval is longer than the window, so that whole intervals never fit)
        own_window = i % 3 == 1
        imp_kind = "marginal-joint-on-the-storage"
        if own_window:
            il, sl = rnd.choice([1, 2, 3, 7, 12]), rnd.choice([1, 2, 5, 9])
            if rnd.random() < 0.5:
                sl = rnd.choice([1, 2, 3, 5])
                il = sl + rnd.choice([1, 2, 4, 9])
            imp_kind = rnd.choice(["none", "default-imputer"])
            run.count("interval-default-storage-configs")
            if il > sl:
                run.count("interval-default-storage-configs-interval-longer-than-window")
        replay = {"interval_length": il, "storage_length": sl, "d": d, "n_inner": n_inner, "seed": seed,
                  "storage_argument": not own_window, "imputer": imp_kind, "calls": []}
        try:
            if not own_window:
                st = storage_proxy(IntervalStorage, clock)(size=sl, store_targets=True)
                imp = ImputerProxy(MarginalImputer(model, "joint", st), clock)
                e = IntervalSage(model, names, loss, n_inner_samples=n_inner, interval_length=il, storage_length=sl,
                                 storage=st, imputer=imp)
            elif imp_kind == "none":
                e = IntervalSage(model, names, loss, n_inner_samples=n_inner, interval_length=il, storage_length=sl)
            else:
                from ixai.imputer import DefaultImputer
                imp = ImputerProxy(DefaultImputer(model, {f: -(j + 1) for j, f in enumerate(names)}), clock)
                e = IntervalSage(model, names, loss, n_inner_samples=n_inner, interval_length=il, storage_length=sl, imputer=imp)
        except TypeError as ex:
            run.other_error(f"C15:{type(ex).__name__}")
            continue
        stored, prev_ret = [], dict(e.importance_values)
        lead = rnd.randrange(1, il) if il > 1 and rnd.random() < 0.3 else 0      # leading calls that neither store nor are due
        ncalls = rnd.choice([8, 15, 24]) if i % 40 != 7 else 300        # a few long schedules (ordinal counters beyond 256)
        try:
            for c in range(1, ncalls + 1):
                x = {f: 1000 * c + j for j, f in enumerate(names)}
                y = rnd.randrange(-4, 5)
                force = rnd.random() < 0.2
                upd = True if c == 1 else rnd.random() < 0.8
                if c <= lead:
                    force, upd = False, False
                elif not stored:
                    upd = True
                # truthy / falsy flags of other types are legal booleans too (numpy comparisons produce np.bool_)
                force_arg = rnd.choice([force, np.bool_(force), int(force)])
                upd_arg = rnd.choice([upd, np.bool_(upd), int(upd)])
                replay["calls"].append({"ordinal": c, "force_explain": repr(force_arg), "update_storage": repr(upd_arg)})
                if (force or c % il == 0) and c > lead and i % 5 == 2 and not own_window and rnd.random() < 0.3:
                    # HISTORY: a callback fails during a recomputation, the caller catches the error and the stream goes on; the
                    # failed call keeps its ordinal (the schedule is stated in call ordinals), later calls are judged as usual
                    clock.fail_at_next = rnd.randrange(2, 6)
                    clock.reset()
                    try:
                        prev_ret = dict(e.explain_one(x, y, update_storage=upd_arg, force_explain=force_arg, verbose=False))
                        clock.fail_at = None         # (the call ended before the failpoint was reached: an ordinary recomputation)
                    except InjectedFault:
                        run.count("interval-histories-with-a-failed-recomputation")
                    if any(ev[0] == "storage.update" for ev in clock.log) and upd:
                        stored.append((x, y))
                    replay["calls"][-1]["fault"] = True
                    continue
                clock.reset()
                if (i + c) % 4 == 1:      # optional arguments passed positionally in the documented order
                    ret = e.explain_one(x, y, None, upd_arg, force_arg, False)
                else:
                    ret = e.explain_one(x, y, update_storage=upd_arg, force_explain=force_arg, verbose=False)
                log = list(clock.log)
                if upd:
                    stored.append((x, y))
                ups = [ev for ev in log if ev[0] == "storage.update"]
                # (the explainer's own storage is not observable at an update; its content is judged at every recomputation)
                if not own_window and (len(ups) != (1 if upd else 0) or (upd and not (ups[0][1] == x))):
                    raise Bad("storage-update", f"call {c}: {len(ups)} storage updates with update_storage={upd}")
                evals = [ev for ev in log if ev[0] in ("model", "model_batch", "loss", "impute.call")]
                should = force or (c % il == 0)
                run.ok(kind="schedule-recompute" if should else "schedule-skip")
                if not should:
                    if evals:
                        raise Bad("evaluated-on-skipped-call", f"call {c} (interval {il}, not forced) made {len(evals)} model/loss/imputer calls")
                    if not (ret == prev_ret):
                        raise Bad("changed-on-skipped-call", f"call {c}: values changed without recompute: {prev_ret!r} -> {ret!r}")
                else:
                    window = stored[-sl:]
                    if not evals:
                        raise Bad("no-recompute", f"call {c} (interval {il}, forced={force}) did not recompute")
                    per, eff, orders = ref_imputer_mode(names, model, loss, log, window, chains=imp_kind != "none")
                    tot = total(ret.values())
                    if set(ret.keys()) != set(names):
                        raise Bad("keys", f"call {c}: result keys {list(ret)!r}")
                    if not (tot == eff):
                        raise Bad("efficiency", f"call {c}: sum {tot!r} != mean explained loss {eff!r} over window of {len(window)}")
                    if own_window:
                        run.count("interval-default-storage-recomputes")
                        if il > sl and len(stored) > sl:
                            run.count("interval-default-storage-recomputes-interval-longer-than-window")
                    if per is not None and not all(ret[f] == per[f] for f in names):
                        raise Bad("per-feature-average", f"call {c}: {ret!r} != {per!r}")
                    if len({v for v in ret.values() if v != 0}) >= 2:
                        run.nontriv(("interval", run.shard[0], i, c))
                    run.see("window-size", (sl, len(window)))
                if not (ret == e.importance_values):
                    raise Bad("return-value", "returned dict differs from importance_values")
                prev_ret = dict(ret)
            if len(run.samples) < 3:
                run.sample({k: v for k, v in replay.items()} | {"final_values": prev_ret})
        except Bad as b:
            if b.mech in ("batch-evaluation", "explained-data"):
                b.mech = "window"
            run.violation(f"interval:{b.mech}", f"{b} | il={il} sl={sl} d={d}", replay)
