"""C06 - imputers replace exactly the requested features with genuine background values."""
import copy
import itertools
import random

import numpy as np

from ..probes import InjectedFault
from ..probes import Clock, Models, make_names
from ..scriptrng import dfs, PALETTE_SMALL
from ..harness import make_storage, Scenario, gen_cfg

SHARDS = {"quick": 1, "thorough": 16}
N_DIRECT = {"quick": 2500, "thorough": 6000}
N_EXPL = {"quick": 300, "thorough": 1000}


class Bad(Exception):
    def __init__(self, mech, msg):
        super().__init__(msg)
        self.mech = mech


class RowView(dict):
    """Snapshot of a stored row; an absent key of a defaultdict row reads as its default."""
    default = None

    def __missing__(self, key):
        if self.default is None:
            raise KeyError(key)
        return self.default()


def snap_storage(st):
    xs, ys = st.get_data()
    rows = []
    for r in xs:
        v = RowView(r)
        v.default = getattr(r, "default_factory", None)
        rows.append(v)
    return [id(r) for r in xs], rows, list(ys)


def as_container(kind, subset):
    if kind == "list":
        return list(subset)
    if kind == "tuple":
        return tuple(subset)
    if kind == "set":
        return set(subset)
    if kind == "frozenset":
        return frozenset(subset)
    if kind == "keys":
        return {k: None for k in subset}.keys()
    # mappings are iterables of their KEYS whatever their values are (name -> column index, dict.fromkeys used as an ordered
    # set, a sub-instance / weight table whose values happen to be 0, False, "", None ...)
    if kind == "dict-index":
        return {k: j for j, k in enumerate(subset)}
    if kind == "dict-none":
        return dict.fromkeys(subset)
    if kind == "dict-values":
        vals = [0.0, 1, False, "", 2.5, None, True, 0, "w"]
        return {k: vals[(j + len(subset)) % len(vals)] for j, k in enumerate(subset)}
    if kind == "odict-index":
        import collections
        return collections.OrderedDict((k, j) for j, k in enumerate(subset))
    if kind == "mapproxy-index":
        import types
        return types.MappingProxyType({k: j for j, k in enumerate(subset)})
    raise ValueError(kind)


MAPPING_KINDS = ("dict-index", "dict-none", "dict-values", "odict-index", "mapproxy-index")
CONTAINER_KINDS = ("list", "tuple", "set", "frozenset", "keys") + MAPPING_KINDS


def snap_container(container):
    """Order of iteration plus, for mappings, the values (a subset handed over as a mapping must keep them too)."""
    items = None
    if hasattr(container, "items") and hasattr(container, "keys") and hasattr(container, "__getitem__"):
        items = [(k, repr(container[k])) for k in container]
    return list(container), items


def check_call(kind, strategy, model, names, x, subset, n, inputs, results, rows_before, defaults, x_before):
    """Oracle for one impute call.  inputs = logged model inputs, results = returned predictions."""
    sub = set(subset)
    if not isinstance(results, list) or len(results) != n:
        raise Bad("result-count", f"impute returned {type(results).__name__} of {len(results) if hasattr(results, '__len__') else '?'}, expected list of {n}")
    if not (x == x_before):
        raise Bad("instance-modified", f"x changed from {x_before!r} to {x!r}")
    def intended(xi):      # x with exactly the requested features replaced, in x's own key order; requested features that the
        out = {k: (xi[k] if (k in sub and k in xi) else x_before[k]) for k in x_before}   # (sparse) instance lacks come behind
        out.update((k, xi[k]) for k in xi if k in sub and k not in x_before)
        return out
    if kind == "default":
        if len(inputs) < 1:
            raise Bad("no-evaluation", "model never evaluated")
        outs = [model.one(intended(xi)) for xi in inputs]
        if len(inputs) == 1:
            outs = outs * n
    else:
        outs = [model.one(intended(xi)) for xi in inputs]
    if len(outs) != n:
        raise Bad("evaluation-count", f"{len(inputs)} model evaluations for n_samples={n}")
    for r, o in zip(results, outs):
        if not (r == o):
            raise Bad("result-not-model-output", f"returned {r!r}; the model on x with exactly the subset replaced gives {o!r}")
    sources = set()
    for xi in inputs:
        if set(xi.keys()) != set(x.keys()) | sub:     # (a requested feature the instance lacks is ADDED with its background value)
            raise Bad("input-keys", f"model input keys {sorted(map(repr, xi))} differ from instance keys {sorted(map(repr, x))} "
                                    f"plus requested features {sorted(map(repr, sub))}")
        for f in x:
            if f not in sub and not (xi[f] == x[f]):
                raise Bad("outside-subset-changed", f"feature {f!r} not requested but {x[f]!r} -> {xi[f]!r}")
        if not sub:
            continue
        if kind == "default":
            for f in sub:
                if not (xi[f] == defaults[f]):
                    raise Bad("not-default-value", f"feature {f!r} imputed with {xi[f]!r}, default is {defaults[f]!r}")
        else:
            src, cand_sets = {}, []
            for f in sub:
                cands = [i for i, r in enumerate(rows_before) if r[f] == xi[f]]
                if not cands:
                    raise Bad("not-a-stored-value", f"feature {f!r} imputed with {xi[f]!r} which no stored observation has "
                                                    f"(instance value {x.get(f, '<absent>')!r})")
                src[f] = cands[0]
                cand_sets.append(set(cands))
            # (values need not be unique across rows - sparse rows share defaults - so "the same stored observation" means:
            #  at least one stored row carries ALL the imputed values)
            common = set.intersection(*cand_sets) if cand_sets else set()
            if strategy == "joint" and not common:
                raise Bad("joint-mixed-rows", f"joint strategy mixed stored observations {src}")
            if strategy == "joint":
                src = {f: min(common) for f in src}
            sources.add(tuple(sorted((repr(f), i) for f, i in src.items())))
    return sources


def main(run):
    from ixai.imputer import MarginalImputer, DefaultImputer
    run.rule = ("MarginalImputer (joint, product) and DefaultImputer driven directly: all 2^d subsets for d<=4 (sampled for d=5,6) "
                "as list/tuple/set/frozenset/dict-keys/mappings with falsy and truthy values (dict, OrderedDict, mappingproxy), dense and "
                "sparse instances (lacking requested and other features: those are added with the background value), every storage kind and fill level >= 1, n_samples in {1,2,5}, globally "
                "unique feature values; all row choices enumerated with the scripted generator for storages of <= 3 rows, seeded "
                "sampling beyond; plus every imputer call made by IncrementalSage/IncrementalPFI scenarios; oracle per call: "
                "inputs agree with x outside the subset, imputed values are defaults / values of ONE (joint) or any (product) "
                "currently stored observation, exactly n predictions equal to the pristine model, empty subset -> model(x) n times, "
                "x / subset / storage unchanged (deep snapshots); evaluations = impute calls judged; non-trivial = distinct "
                "(strategy, subset size, set of source rows) with a non-empty subset")
    run.assumptions = ["subsets are re-iterable containers (mappings count as iterables of their keys)",
                       "stored observations / the default table know every requested feature; the INSTANCE may lack some (sparse)"]
    run.require_count("mapping-subset-calls", "mapping-subset-falsy-value-calls", "sparse-instance-calls",
                      "sparse-instance-requested-absent-calls", "sparse-instance-mapping-subset-calls")
    run.require("ixai/imputer/marginal_imputer.py:MarginalImputer.impute",
                "ixai/imputer/default_imputer.py:DefaultImputer.impute")
    rnd = random.Random(run.shard_seed)
    thorough = run.tier == "thorough"

    def one_case(kind, strategy, d, m, n0, spec, cont, scripted, subsets=None):
        n = n0
        names = make_names(rnd.choice(["str", "int", "float"]), d)
        clock = Clock()
        model = Models(rnd.choice(["scalar", "multi", "grow", "positional"]), names, exact=False, clock=clock)
        st = make_storage(spec, clock)
        falsy = {j: (rnd.randrange(m), rnd.choice([0, 0.0, False, ""])) for j in range(d) if rnd.random() < 0.5}
        row_order = list(enumerate(names))
        if rnd.random() < 0.5:
            rnd.shuffle(row_order)             # stored observations may list their keys in another order than the instance
        sparse = kind == "marginal" and rnd.random() < 0.2
        wide = rnd.random() < 0.3              # ... and may carry keys the instance does not have (sparse / evolving dicts)
        for t in range(m):
            row = {f: (falsy[j][1] if j in falsy and falsy[j][0] == t else 1000 * (t + 1) + j) for j, f in row_order}
            if wide:
                row = {"row_only": -t, **row}
            if sparse:       # sparse stream: rows are defaultdicts, a zero-valued feature is simply absent
                import collections
                zero_feats = [f for j, f in row_order if rnd.random() < 0.3]
                row = collections.defaultdict(float, {k: v for k, v in row.items() if k not in zero_feats})
            st.update(row, t)
        # defaults of every plausible kind: falsy values, category strings, tuples / lists (an embedding, a bag of tokens), arrays
        exotic = [0, 0.0, False, "", None, "red", "unknown-category", ("a", "b"), (1.5, 2.5, 3.5), [7, 8], b"raw", np.float32(0.25), np.int64(-3)]
        defaults = {f: (rnd.choice(exotic) if rnd.random() < 0.5 else -(j + 1)) for j, f in enumerate(names)}
        strat_arg = rnd.choice([strategy, "".join(list(strategy)), str(__import__("numpy").str_(strategy))])   # equal strings, not the literal object
        imp = DefaultImputer(model, dict(defaults)) if kind == "default" else MarginalImputer(model, strat_arg, st)
        x_full = {f: 900000 + j for j, f in enumerate(names)}
        x_full["extra"] = 7
        x_full["extra2"] = 8
        x_small = {f: 800000 + j for j, f in enumerate(names)}        # a later instance with FEWER keys (sparse / evolving dicts)
        x = x_full
        if subsets is None:
            subsets = [c for r in range(d + 1) for c in itertools.combinations(names, r)]
            if len(subsets) > 16:
                subsets = [(), tuple(names)] + rnd.sample(subsets, 14)
        sparse_x = rnd.random() < 0.4          # sparse instances (river-style dicts: an absent key == feature not set / not yet seen)
        for si, sub in enumerate(subsets):
            x = x_small if si % 3 == 2 else x_full      # the same imputer object serves instances with different key sets
            absent = ()
            if sparse_x and (si % 2 == 1 or scripted):
                # the instance lacks some features the defaults / stored observations know - requested ones and others
                absent = [f for f in names if rnd.random() < 0.4]
                if sub and not set(absent) & set(sub):
                    absent.append(rnd.choice(list(sub)))
                x = {k: v for k, v in x.items() if k not in absent}
                run.count("sparse-instance-calls")
                if set(absent) & set(sub):
                    run.count("sparse-instance-requested-absent-calls")
                    if cont in MAPPING_KINDS:
                        run.count("sparse-instance-mapping-subset-calls")
            n = [n0, 1, n0 + 2, 2, 1][si % 5] if not scripted else n0     # ... and varying (also decreasing) n_samples
            ids0, rows0, ys0 = snap_storage(st)
            x0 = dict(x)
            container = as_container(cont, sub)
            before = snap_container(container)
            if cont in MAPPING_KINDS:
                run.count("mapping-subset-calls")
                if any(not container[k] for k in container):
                    run.count("mapping-subset-falsy-value-calls")
            replay = {"imputer": kind, "strategy": strategy, "d": d, "stored_rows": rows0, "n_samples": n,
                      "subset": list(sub), "container": cont, "storage": spec, "instance": x0, "absent_from_instance": list(absent)}

            def scen(rng=None):
                clock.reset()
                try:
                    res = imp.impute(container, x, n) if n % 2 else imp.impute(feature_subset=container, x_i=x, n_samples=n)
                except (Bad, InjectedFault):
                    raise
                except Exception as ex:          # a legal request (stored rows, known features, n_samples >= 1) must be served
                    raise Bad("impute-raises", f"impute raised {type(ex).__name__}: {ex}")
                inputs = [e[1] for e in clock.log if e[0] == "model"]
                return res, inputs
            try:
                if scripted:
                    it = dfs(scen, PALETTE_SMALL, max_paths=3000)
                else:
                    it = [(None, scen(), None)]
                for script, out, _ in it:
                    if script is None and scripted:
                        break
                    res, inputs = out
                    run.ok(kind=f"{kind}-{strategy}" + ("-enum" if scripted else ""))
                    srcs = check_call(kind, strategy, model, names, x, sub, n, inputs, res, rows0, defaults, x0)
                    ids1, rows1, ys1 = snap_storage(st)
                    if rows1 != rows0 or ys1 != ys0:      # (by value: a storage may hand out fresh copies on every read)
                        raise Bad("storage-modified", f"storage changed: {rows0!r} -> {rows1!r}")
                    if snap_container(container) != before or type(container) is not type(as_container(cont, sub)):
                        raise Bad("subset-modified", f"subset {before!r} -> {snap_container(container)!r}")
                    if sub:
                        run.nontriv((kind, strategy, len(sub), tuple(sorted(srcs))))
                        run.see("source-rows", (kind, strategy, len(sub), tuple(sorted(srcs))))
                    if len(run.samples) < 3 and len(sub) >= 2 and kind == "marginal" and n >= 2:
                        run.sample({**replay, "x": x0, "model_inputs": inputs})
            except Bad as b:
                run.violation(f"{kind}{'-' + strategy if kind == 'marginal' else ''}:{b.mech}", f"{b} | case {replay}", replay)
                return

    # ---- (1) scripted enumeration of all row choices for tiny storages
    for m in (1, 2, 3):
        for strategy in ("joint", "product"):
            for d in (1, 2, 3):
                spec = rnd.choice([("batch", True), ("interval", 3, True), ("uniform", 3, False), ("geometric", 3, 1.0, False)])
                one_case("marginal", strategy, d, m, rnd.choice([1, 2]), spec, rnd.choice(["list", "set", "tuple", "dict-index", "dict-values"]), True)
    # ---- (2) seeded sampling over the product
    for i in range(N_DIRECT[run.tier]):
        kind = rnd.choice(["marginal", "marginal", "default"])
        strategy = rnd.choice(["joint", "product"])
        d = rnd.choice([1, 2, 3, 4, 5, 6])
        spec = rnd.choice([("batch", True), ("batch", False), ("interval", rnd.choice([1, 2, 5, 9]), True), ("sequence", True),
                           ("uniform", rnd.choice([1, 2, 5, 100]), rnd.random() < .5),
                           ("geometric", rnd.choice([1, 2, 5, 100]), rnd.choice([None, 0.5, 1.0]), rnd.random() < .5)])
        m = rnd.choice([1, 2, 3, 7, 30])
        random.seed(rnd.randrange(2 ** 31))
        names_sub = None
        one_case(kind, strategy, d, m, rnd.choice([1, 2, 5]), spec, rnd.choice(CONTAINER_KINDS), False,
                 subsets=names_sub)
    # ---- (3) every imputer call made by explainer scenarios
    for i in range(N_EXPL[run.tier]):
        cfg = gen_cfg(rnd, rnd.choice(["sage", "pfi"]), exact=False)
        if cfg["imputer"] not in ("joint", "product", "default"):
            cfg["imputer"] = rnd.choice(["joint", "product", "default"])
        if cfg["storage"][0] in ("library-default", "tree"):
            cfg["storage"] = ("uniform", 5, False)
        cfg["manual_updates"] = False           # (the storage snapshot is taken right before each step)
        seed = rnd.randrange(2 ** 31)
        try:
            sc = Scenario(cfg, seed)
        except Exception as ex:
            run.other_error(f"C15:construct:{type(ex).__name__}")
            continue
        kind = "default" if cfg["imputer"] == "default" else "marginal"
        for t in range(min(cfg["steps"], 10)):
            ids0, rows0, ys0 = snap_storage(sc.storage)
            try:
                x, y, ret, log = sc.step(update_storage=False) if (t > 0 and t % 4 == 3) else sc.step()
            except KeyError as ex:
                run.other_error(f"C15:step:{type(ex).__name__}")
                break
            except Exception as ex:
                import traceback
                if any("imputer" in fr_.filename.replace("\\", "/").split("/ixai/")[-1] for fr_ in traceback.extract_tb(ex.__traceback__) if "/ixai/" in fr_.filename.replace("\\", "/")):
                    run.violation(f"{kind}{'-' + cfg['imputer'] if kind == 'marginal' else ''}:impute-raises",
                                  f"explain_one: the imputer raised {type(ex).__name__}: {ex} | cfg {cfg} step {t}", {"cfg": cfg, "seed": seed, "step": t})
                else:
                    run.other_error(f"C15:step:{type(ex).__name__}")
                break
            calls = [e for e in log if e[0] == "impute.call"]
            rets = [e for e in log if e[0] == "impute.ret"]
            for c, r in zip(calls, rets):
                run.ok(kind=f"via-{cfg['explainer']}")
                try:
                    srcs = check_call(kind, cfg["imputer"], sc.model, sc.names, x, c[1], c[3], r[2], r[3], rows0, sc.defaults, c[2])
                    if c[1]:
                        run.nontriv((cfg["explainer"], cfg["imputer"], len(c[1]), tuple(sorted(srcs))))
                except Bad as b:
                    run.violation(f"{kind}{'-' + cfg['imputer'] if kind == 'marginal' else ''}:{b.mech}",
                                  f"{b} | cfg {cfg} step {t}", {"cfg": cfg, "seed": seed, "step": t})
                    break
