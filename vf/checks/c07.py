"""C07 - storages hold only observed data, within capacity, targets aligned (invariant after every update;
random outcomes enumerated with the scripted generator)."""
import collections
import math
import random

from ..scriptrng import dfs, PALETTE_FULL, PALETTE_SMALL

SHARDS = {"quick": 1, "thorough": 16}


class Bad(Exception):
    def __init__(self, mech, msg):
        super().__init__(msg)
        self.mech = mech


def vkey(obj):
    """Value key of an observation or record: a storage may keep the caller's object or an equal copy of it - both are 'the
    observation' (the statement is about observations, not object identities)."""
    if isinstance(obj, dict):
        try:        # (value AND type of every entry; hashing is much cheaper than repr on streams of 10^5 observations)
            return ("d", frozenset((k, v, type(v)) for k, v in obj.items()))
        except TypeError:
            return ("d", tuple(sorted((repr(k), repr(v)) for k, v in obj.items())))
    return ("r", repr(obj))


def same_target(arrived, stored):
    """The stored target is the one that arrived: the same object, or - for numbers - an equal value."""
    import numbers
    if arrived is stored:
        return True
    if isinstance(arrived, (numbers.Number,)) or hasattr(arrived, "dtype"):
        try:
            return bool(arrived == stored)
        except Exception:
            return False
    return False


def numeric_target(i):
    """Targets of many numeric types whose values do not survive a cast to float / int."""
    import decimal
    import fractions
    import numpy as np
    return [fractions.Fraction(2 * i + 1, 3), np.longdouble(i) + np.longdouble(1) / np.longdouble(3), 2 ** 60 + 2 * i + 1, np.float32(i + 1) / np.float32(3),
            i + 0.5, decimal.Decimal(i) / decimal.Decimal(7), np.int64(2 ** 62 + i), bool(i % 2)][i % 8]


def reading(i):
    """The i-th observation of the plain streams: integer stamps and generic floats (a stored observation must carry exactly the
    values that arrived, to the last bit)."""
    return {"t": i, "v": i * i, "w": math.sqrt(i + 0.37) * 1e-3, "z": -1.0 / (3.0 + i)}


def invariant(st, arrivals, pos, cap, targets, kind):
    """Reads only len() and get_data()."""
    xs, ys = st.get_data()
    xs, ys = list(xs), list(ys)
    n = len(arrivals)
    if not (len(st) == len(xs) == min(n, cap)):
        raise Bad("count", f"len()={len(st)} stored={len(xs)} seen={n} capacity={cap}")
    idx = []
    for x in xs:
        i = pos.get(vkey(x))
        if i is None:
            raise Bad("not-an-arrival", f"stored object {x!r} is not one of the observed instances")
        idx.append(i)
    if len(set(idx)) != len(idx):
        raise Bad("duplicate", f"an arrival is stored more than once: {idx}")
    if targets:
        if len(ys) != len(xs):
            raise Bad("target-count", f"{len(ys)} targets for {len(xs)} instances")
        for i, y in zip(idx, ys):
            if not same_target(arrivals[i][1], y):
                raise Bad("target-misaligned", f"stored target {y!r} does not belong to arrival {i} (which came with {arrivals[i][1]!r})")
    elif len(ys) != 0:
        raise Bad("targets-kept", f"store_targets=False but {len(ys)} targets are kept")
    if kind == "batch" and idx != list(range(n)):
        raise Bad("order", f"BatchStorage holds {idx}, expected the whole stream in order")
    if kind in ("interval", "sequence") and idx != list(range(max(0, n - cap), n)):
        raise Bad("order", f"{kind} holds arrivals {idx}, expected the last {cap} in order")
    for x, i in zip(xs, idx):
        if x != reading(i):      # (a fresh copy of what arrived: the caller's own dict may be the stored one)
            raise Bad("content-modified", f"stored arrival {i} now reads {x!r}")
    return tuple(idx)


def invariant_multi(st, arrivals, cap, targets, kind):
    """Multiset version for streams in which the same dict OBJECT arrives several times and / or distinct objects carry
    equal values.  Value based (with multiplicities)."""
    import collections
    xs, ys = st.get_data()
    xs, ys = list(xs), list(ys)
    n = len(arrivals)
    if not (len(st) == len(xs) == min(n, cap)):
        raise Bad("count", f"len()={len(st)} stored={len(xs)} seen={n} capacity={cap}")
    arrived = collections.Counter(vkey(x) for x, _ in arrivals)
    stored = collections.Counter(vkey(x) for x in xs)
    for i, c in stored.items():
        if c > arrived.get(i, 0):
            raise Bad("not-an-arrival", f"an object is stored {c}x but arrived {arrived.get(i, 0)}x")
    if targets:
        if len(ys) != len(xs):
            raise Bad("target-count", f"{len(ys)} targets for {len(xs)} instances")
        by_obj = collections.defaultdict(collections.Counter)
        for x, y in arrivals:
            by_obj[vkey(x)][vkey(y)] += 1
        got = collections.defaultdict(collections.Counter)
        for x, y in zip(xs, ys):
            got[vkey(x)][vkey(y)] += 1
        for i, cnt in got.items():
            for yid, c in cnt.items():
                if c > by_obj[i].get(yid, 0):
                    raise Bad("target-misaligned", "a stored target did not arrive with the instance stored at the same position")
    elif len(ys) != 0:
        raise Bad("targets-kept", f"store_targets=False but {len(ys)} targets are kept")
    if kind in ("batch", "interval", "sequence"):
        exp = arrivals if kind == "batch" else arrivals[max(0, n - cap):]
        if len(xs) != len(exp) or any(vkey(a) != vkey(b[0]) for a, b in zip(xs, exp)):
            raise Bad("order", f"{kind} does not hold exactly the last {min(n, cap)} arrivals in order")
        if targets and any(not same_target(b[1], a) and vkey(a) != vkey(b[1]) for a, b in zip(ys, exp)):
            raise Bad("target-misaligned", f"{kind}: targets are not those of the last arrivals in order")


def drive_multi(kind, k, p, tg, n, rnd, style):
    import numpy as np
    kk = rnd.choice([k, np.int64(k), np.uint8(k), np.int32(k)]) if k else k       # capacities given as NumPy integers
    st, cap = make(kind, kk, p, tg)
    cap = int(cap)
    arrivals, prev = [], None
    for i in range(n):
        if style == "repeat-object" and prev is not None and rnd.random() < 0.4:
            x = prev if rnd.random() < 0.7 else arrivals[rnd.randrange(len(arrivals))][0]
        elif style == "dup-values":
            x = {"t": i % 2, "v": 0}
        elif style == "equal-pairs":
            x = {"t": i // 3, "v": 0}         # the same reading arrives two or three times IN A ROW, target included (new objects, equal values)
        elif style == "odd-records" and i % 6 == 4:
            # an unusual but legal observation: a dict SUBCLASS whose values are not numbers (the storages keep observations, they
            # do not interpret them); observations stay dicts, the documented type
            x = collections.OrderedDict([("t", i), ("v", ("record", i)), (("tuple", "key"), None)])
        else:
            x = {"t": i, "v": i * i, "w": math.sqrt(i + 0.37) * 1e-3}
        y = ("y", i) if style != "equal-pairs" else ("y", i // 3)
        arrivals.append((x, y))
        prev = x
        st.update(x, y)
        invariant_multi(st, arrivals, cap, tg, kind)
    return n


def make(kind, k, p, tg):
    from ixai.storage import (UniformReservoirStorage, GeometricReservoirStorage, IntervalStorage,
                              SequenceStorage, BatchStorage)
    if kind == "uniform":
        return UniformReservoirStorage(size=k, store_targets=tg), k
    if kind == "geometric":
        return GeometricReservoirStorage(size=k, constant_probability=p, store_targets=tg), k
    if kind == "interval":
        return IntervalStorage(size=k, store_targets=tg), k
    if kind == "sequence":
        return SequenceStorage(store_targets=tg), 1
    return BatchStorage(store_targets=tg), 10 ** 9


def drive(kind, k, p, tg, n, every=1, outcomes=None):
    st, cap = make(kind, k, p, tg)
    if every == 1 and outcomes is None and n > 20:
        every = 1 + (n * 7 + k) % 4          # the content is also read only now and then (lazy bookkeeping must not depend on reads)
    arrivals, pos = [], {}
    evals = 0
    upd = st.update if (n + (k or 0)) % 3 == 1 else None      # a bound method taken before the first update, used throughout
    for i in range(n):
        # (readings are generic floats - irrational-looking mantissas - next to the integer stamps: a stored observation must carry
        # exactly the values that arrived)
        x, y = reading(i), (("y", i) if (n + (k or 0)) % 4 else numeric_target(i))      # some streams carry numeric targets of many types
        arrivals.append((x, y))
        pos[vkey(x)] = i
        if i % 5 == 2:
            (upd or st.update)(x=x, y=y)          # keyword form (the explainers' own update_storage uses it)
        else:
            (upd or st.update)(x, y)
        if i % every == 0 or i == n - 1:
            out = invariant(st, arrivals, pos, cap, tg, kind)
            evals += 1
            if outcomes is not None:
                outcomes.add((i, out))
    return evals


def main(run):
    run.rule = ("(a) scripted global RNG: DFS over ALL outcomes of the integer draws and a float palette (0, 1e-12, 1/4, "
                "1/2, 3/4, 1-2^-53, plus p and p+-ulp for the geometric acceptance) for small capacities / short streams, "
                "(b) seeded long streams with capacities up to 1000, (c) streams in which the same dict object arrives repeatedly or distinct objects carry equal values (multiset invariant by identity); invariant (sub-multiset by identity, count = "
                "min(seen,capacity), targets aligned / absent, order for Batch/Interval/Sequence, stored dicts unmodified) "
                "checked after every update through len()/get_data() only; (d) storages driven through IncrementalSage / IncrementalPFI / IntervalSage / BatchSage with callbacks failing at random positions: after every call the content must follow from the update calls seen at the storage boundary; evaluations = invariant evaluations; "
                "non-trivial = distinct (step, stored index tuple) outcomes after the storage filled")
    run.assumptions = ["enumeration is exhaustive only for the bounded spaces listed in notes.enumerated"]
    run.require("ixai/storage/uniform_reservoir_storage.py:UniformReservoirStorage.update",
                "ixai/storage/geometric_reservoir_storage.py:GeometricReservoirStorage.update",
                "ixai/storage/interval_storage.py:IntervalStorage.update",
                "ixai/storage/batch_storage.py:BatchStorage.update")
    thorough = run.tier == "thorough"
    rnd = random.Random(run.shard_seed)
    sh, nsh = run.shard
    enumerated, all_exhausted = [], True
    # ---- (a) enumeration
    jobs = []
    for tg in (True, False):
        for k in (1, 2, 3):
            for p in (None, 0.5, 1.0, 0.0, 0.3):
                jobs.append(("geometric", k, p, tg, k + (4 if thorough else 3)))
        for k in (1, 2) + ((3,) if thorough else ()):
            jobs.append(("uniform", k, None, tg, k + (3 if thorough else 2)))
    for j, (kind, k, p, tg, n) in enumerate(jobs):
        if j % nsh != sh:
            continue
        pal = list(PALETTE_FULL if thorough else PALETTE_SMALL)
        if kind == "geometric":
            pe = (1 / k) if p is None else p
            pal += [pe, math.nextafter(pe, 2.0), math.nextafter(pe, -1.0)]
            pal = sorted({v for v in pal if 0.0 <= v < 1.0})
        outcomes, paths = set(), 0
        cap_paths = 400000 if thorough else 40000
        exhausted = True

        def scenario(rng):
            return drive(kind, k, p, tg, n, outcomes=outcomes)
        try:
            for script, res, rng in dfs(scenario, pal, max_paths=cap_paths):
                if script is None:
                    exhausted = False
                    break
                paths += 1
                run.ok(res, kind="scripted")
        except Bad as b:
            run.ok(kind="scripted")
            run.violation(f"{kind}:{b.mech}", f"{kind} k={k} p={p} targets={tg} scripted path: {b}",
                          {"kind": kind, "k": k, "p": p, "store_targets": tg, "n": n, "palette": pal})
            exhausted = False
        all_exhausted &= exhausted
        run.count("scripted-paths", paths)
        for o in outcomes:
            if o[0] >= k:
                run.nontriv(("enum", kind, k, p, tg, o))
        enumerated.append({"kind": kind, "k": k, "p": p, "targets": tg, "stream": n, "palette": len(pal),
                           "paths": paths, "exhausted": exhausted, "distinct_outcomes": len(outcomes)})
    run.notes["enumerated"] = enumerated
    run.exhaustive = False   # the property ranges over unbounded streams; bounded sub-spaces are listed in notes
    run.notes["bounded_subspaces_exhausted"] = all_exhausted
    if enumerated:
        run.sample({"enumerated_scenario": enumerated[0]})
    # ---- deterministic storages: all sizes x lengths
    if sh == 0:
        for tg in (True, False):
            for k in (1, 2, 3, 5, 8, 13):
                outs = set()
                try:
                    run.ok(drive("interval", k, None, tg, 4 * k + 3, outcomes=outs), kind="interval")
                    run.ok(drive("sequence", 1, None, tg, 9, outcomes=outs), kind="sequence")
                    run.ok(drive("batch", 0, None, tg, 40, outcomes=outs), kind="batch")
                except Bad as b:
                    run.violation(f"deterministic:{b.mech}", f"k={k} targets={tg}: {b}", {"k": k, "store_targets": tg})
                for o in outs:
                    run.nontriv(("det", k, tg, o))
    # ---- repeated objects / equal-valued observations (identity-based multiset invariant)
    for style in ("repeat-object", "dup-values", "odd-records", "equal-pairs"):
        for kind, k, p in (("interval", 1, None), ("interval", 3, None), ("sequence", 1, None), ("batch", 0, None),
                           ("geometric", 2, 0.7), ("geometric", 4, 1.0), ("geometric", 5, None), ("uniform", 3, None), ("uniform", 1, None)):
            for tg in (True, False):
                for rep in range(3 if not thorough else 12):
                    random.seed(rnd.randrange(2 ** 31))
                    try:
                        run.ok(drive_multi(kind, k, p, tg, 60 if not thorough else 200, rnd, style), kind=style)
                        run.nontriv(("multi", style, kind, k, tg, rep, sh))
                    except Bad as b:
                        run.ok(kind=style)
                        run.violation(f"{kind if kind in ('geometric', 'uniform') else 'deterministic'}:{b.mech}",
                                      f"{kind} k={k} p={p} targets={tg} stream style {style}: {b}",
                                      {"kind": kind, "k": k, "p": p, "store_targets": tg, "style": style})
                        break
    # ---- every capacity 1..130 (thin slices of the size axis), a few updates beyond full, every storage class
    for kind in ("interval", "uniform", "geometric"):
        for k in range(1 + sh, 131, nsh):
            for tg in (True, False):
                random.seed(rnd.randrange(2 ** 31))
                try:
                    run.ok(drive(kind, k, None if kind != "geometric" else 1.0, tg, k + 4, every=max(1, k // 3)), kind="capacity-sweep")
                except Bad as b:
                    run.ok(kind="capacity-sweep")
                    run.violation(f"{kind if kind != 'interval' else 'deterministic'}:{b.mech}", f"{kind} capacity {k} targets={tg}: {b}",
                                  {"kind": kind, "k": k, "store_targets": tg, "n": k + 4})
        run.nontriv(("capacity-sweep", kind, sh))
    # ---- (a9) very large capacities (beyond 10^4 and 2^16): the storage keeps filling up to the capacity it was given
    for j, (kind, k) in enumerate([("geometric", 12000), ("uniform", 10001), ("interval", 11000), ("geometric", 70000 if thorough else 20000), ("uniform", 120000), ("geometric", 101000)]):
        if j % nsh != sh % 6 and nsh > 1:
            continue
        random.seed(rnd.randrange(2 ** 31))
        try:
            run.ok(drive(kind, k, None if kind != "geometric" else 1.0, j % 2 == 1, k + 40, every=k - 1), kind="large-capacity")
            run.nontriv(("large-capacity", kind, k))
        except Bad as b:
            run.ok(kind="large-capacity")
            run.violation(f"{kind if kind != 'interval' else 'deterministic'}:{b.mech}", f"{kind} capacity {k}: {b}", {"kind": kind, "k": k, "n": k + 40})
    # ---- (b0) streams beyond 2**16 updates on ONE storage object (counter thresholds), content read now and then
    for j, (kind, k, p) in enumerate([("uniform", 4, None), ("geometric", 3, 1.0), ("interval", 5, None), ("uniform", 1, None)]):
        if j % nsh != sh % 4 and nsh > 1:
            continue
        random.seed(rnd.randrange(2 ** 31))
        n_vl = 70000 if not thorough else 140000
        try:
            run.ok(drive(kind, k, p, j % 2 == 0, n_vl, every=997), kind="beyond-2^16")
            run.nontriv(("very-long", kind, k))
        except Bad as b:
            run.ok(kind="beyond-2^16")
            run.violation(f"{kind if kind != 'interval' else 'deterministic'}:{b.mech}", f"{kind} k={k} stream of {n_vl} updates: {b}",
                          {"kind": kind, "k": k, "p": p, "n": n_vl})
    # ---- (b) long seeded streams
    n_long = 20000 if thorough else 4000
    for j, (kind, k, p) in enumerate([("uniform", 1, None), ("uniform", 7, None), ("uniform", 100, None),
                                      ("uniform", 1000, None), ("geometric", 1, None), ("geometric", 7, 0.5),
                                      ("geometric", 100, None), ("geometric", 1000, 1.0), ("geometric", 5, 0.05)]):
        if j % nsh != sh and thorough:
            continue
        for tg in (True, False):
            random.seed(rnd.randrange(2 ** 31))
            outs = set()
            try:
                ev = drive(kind, k, p, tg, n_long, every=1 if k <= 100 else 7, outcomes=outs if k <= 7 else None)
                run.ok(ev, kind="long-stream")
            except Bad as b:
                run.ok(kind="long-stream")
                run.violation(f"{kind}:{b.mech}", f"{kind} k={k} p={p} targets={tg} long stream: {b}",
                              {"kind": kind, "k": k, "p": p, "store_targets": tg, "n": n_long})
            for o in list(outs)[:2000]:
                run.nontriv(("long", kind, k, tg, o))
    run.sample({"long_stream": {"kind": "uniform", "k": 7, "updates": n_long, "x_t": {"t": "t", "v": "t*t"}, "y_t": ["y", "t"]}})
    # ---- storages driven THROUGH the explainers (the usual way), with callbacks that fail now and then and a caller that carries
    # on: after every explain_one - successful or failed - the content must be what the update calls seen at the storage's own
    # boundary imply (nothing is taken back, dropped or added behind the storage's update interface)
    explainer_driven(run, rnd, 56 if not thorough else 210)


def explainer_driven(run, rnd, n_cfg):
    from ..harness import Scenario, gen_cfg
    from ..probes import InjectedFault
    from .c17 import BatchScenario
    for c in range(n_cfg):
        seed = rnd.randrange(2 ** 31)
        which = ["sage", "pfi", "interval", "interval", "batch", "batch-uniform", "batch-geometric"][c % 7]
        try:
            if which in ("sage", "pfi"):
                cfg = gen_cfg(rnd, which, exact=True)
                if cfg["storage"][0] == "library-default":
                    cfg["storage"] = ("interval", 3, True)
                cfg.update(manual_updates=False, warm_start=0, steps=min(cfg["steps"], 16))
                sc = Scenario(cfg, seed)
                spec = cfg["storage"]
                kind, tg = spec[0], bool(spec[-1]) if isinstance(spec[-1], bool) else False
                cap = spec[1] if kind in ("uniform", "geometric", "interval") else (1 if kind == "sequence" else 10 ** 9)
                steps = cfg["steps"]
            else:
                sc = BatchScenario(which.split("-")[0], seed, rnd, reservoir=(which.split("-")[1] if "-" in which else None))
                kind, tg = ("interval" if which == "interval" else which.split("-")[1] if "-" in which else "batch"), True
                cap = sc.capacity
                steps = 12 if which.startswith("batch") else 3 * cap + 4
        except Exception as ex:
            run.other_error(f"C15:construct:{type(ex).__name__}")
            continue
        st = sc.storage
        if st is None:
            continue
        arrivals = []
        failed = 0
        for t in range(steps):
            x, y = sc.next_obs()
            if t >= 1 and rnd.random() < 0.3:
                sc.clock.fail_at_next = rnd.randrange(1, 12)
            try:
                if which in ("sage", "pfi"):
                    sc.step(x, y)
                else:
                    sc.step(x, y)
            except InjectedFault:
                failed += 1
            except Exception as ex:
                run.ok(kind="explainer-driven")
                run.violation("deterministic:explain-raises" if kind in ("interval", "batch", "sequence") else f"{kind}:explain-raises",
                              f"{which} step {t}: {type(ex).__name__}: {ex}", {"explainer": which, "seed": seed, "step": t})
                break
            sc.clock.fail_at_next = sc.clock.fail_at = None      # (the monitor's own reads go through the proxy too)
            arrivals += [(e[1], e[2]) for e in sc.clock.log if e[0] == "storage.update"]
            try:
                invariant_multi(st, arrivals, cap, tg, kind)
                run.ok(kind="explainer-driven")
            except Bad as b:
                run.ok(kind="explainer-driven")
                run.violation(f"{kind if kind in ('geometric', 'uniform') else 'deterministic'}:{b.mech}",
                              f"{kind} storage (capacity {cap}) driven by {which} explainer, after call {t + 1} ({failed} calls failed in a callback so far): {b}",
                              {"explainer": which, "kind": kind, "capacity": cap, "seed": seed, "step": t, "failed_calls": failed})
                break
        run.count("explainer-driven-failed-calls", failed)
        run.nontriv(("explainer-driven", which, kind, c, run.shard[0]))
