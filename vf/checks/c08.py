"""C08 - UniformReservoirStorage keeps a uniformly random k-subset (exact binomial cell tests over many
independent executions; reads only get_data())."""
import collections
import copy
import pickle
import itertools
import math
import random

from ..stats import CellTests, EPS

SHARDS = {"quick": 4, "thorough": 16}
TIMEOUT = {"quick": 900, "thorough": 7200}

# (k, snapshot lengths, runs quick, runs thorough)
GRID = [
    (1, [2, 3, 5, 10], 40000, 400000),
    (2, [3, 4, 6, 12], 30000, 300000),
    (3, [4, 5, 7, 15, 40], 20000, 200000),
    (5, [6, 8, 11, 30, 100], 10000, 100000),
    (10, [11, 15, 25, 100], 6000, 60000),
    (50, [51, 60, 120, 500], 1500, 15000),
    (4, [50, 400, 3000], 600, 8000),
    (1, [4, 37, 200], 6000, 60000),
]


def picks(k, n):
    """Arrival positions whose inclusion indicator is tested at snapshot n (all of them when n is small)."""
    if n <= 40:
        return list(range(n))
    base = {0, 1, k - 1, k, k + 1, n // 4, n // 2, (3 * n) // 4, n - 3, n - 2, n - 1}
    return sorted(t for t in base if 0 <= t < n)


def buckets(n):
    nb = 5
    return [(b * n // nb, (b + 1) * n // nb) for b in range(nb)]


def plan(k, snaps):
    """Number of cell tests, fixed before sampling."""
    tot = 0
    for n in snaps:
        tot += len(picks(k, n))
        if k <= 3 and n <= 7:
            tot += math.comb(n, k)
        if k >= 2:
            tot += 3                      # pair co-inclusion
        if n > 40:
            tot += len(buckets(n))
    return tot


def interfere():
    """Other library objects constructed and used in the middle of a stream (a user's program does that): must not
    disturb the reservoir's random draws in any systematic way."""
    from ixai.storage import TreeStorage, IntervalStorage
    from ixai.utils.tracker import WelfordTracker
    ts = TreeStorage(cat_feature_names=["c"], num_feature_names=["n"], max_depth=2, grace_period=5, seed=42)
    ts.update({"c": 1, "n": 0.5})
    IntervalStorage(size=2).update({"a": 1})
    WelfordTracker().update(1.0)


def sample(make, k, snaps, runs, hrnd, interference=False, with_y=False):
    incl = {n: collections.Counter() for n in snaps}
    subsets = {n: collections.Counter() for n in snaps}
    pairs = {n: collections.Counter() for n in snaps}
    buck = {n: collections.Counter() for n in snaps}
    nmax = max(snaps)
    snapset = set(snaps)
    ckpts = {max(1, nmax // 3), max(2, (2 * nmax) // 3), min(nmax - 1, 4)}
    for _ in range(runs):
        st = make()
        upd = st.update if _ % 2 else None             # every other execution calls a bound method taken BEFORE the first update
        first = make() if interference else None      # a second storage fed the very same dict objects (e.g. two explainers)
        at = hrnd.randrange(nmax) if interference and hrnd.random() < 0.5 else -1
        for i in range(nmax):
            if i == at:
                interfere()
            obs = {"t": i}
            if first is not None:
                first.update(obs)
            if with_y and i % 3 != 1:
                (upd or st.update)(obs, ("label", i))
            elif upd is not None:
                upd(obs)
            else:
                st.update(obs)
            if _ % 7 == 5 and i % 5 == 4 and not with_y:
                # the caller reorders the list it was handed (get_data() returns the live list; which slot holds which observation
                # carries no meaning for a uniform reservoir)
                st.get_data()[0].sort(key=lambda o_: o_["t"])
            if _ % 5 == 3 and i in ckpts:       # checkpointing: the stream continues on a deep copy / pickle round trip of the storage
                st = copy.deepcopy(st) if (i + _) % 2 else pickle.loads(pickle.dumps(st))
                upd = st.update if upd is not None else None
            n = i + 1
            if n in snapset:
                xs = list(st.get_data()[0])
                ts = sorted(x["t"] for x in xs)
                for t in ts:
                    incl[n][t] += 1
                if k <= 3 and n <= 7:
                    subsets[n][tuple(ts)] += 1
                if k >= 2:
                    s = set(ts)
                    for pr in pair_picks(k, n):
                        if pr[0] in s and pr[1] in s:
                            pairs[n][pr] += 1
                if n > 40:
                    t = xs[hrnd.randrange(len(xs))]["t"]
                    for b, (lo, hi) in enumerate(buckets(n)):
                        if lo <= t < hi:
                            buck[n][b] += 1
    return incl, subsets, pairs, buck


def pair_picks(k, n):
    return [(0, 1), (0, n - 1), (n - 2, n - 1)]


# ---- streams with rich payloads: the retention law speaks about stream POSITIONS, whatever the observation carries.
# (k, snapshot lengths, runs quick, runs thorough); the payload mode cycles over the configurations
PAYLOAD_GRID = [
    (5, [6, 10, 20, 40], 6000, 60000),
    (2, [3, 5, 12, 30], 12000, 120000),
    (1, [2, 4, 9, 21], 20000, 200000),
    (3, [4, 7, 16, 36], 9000, 90000),
    (8, [9, 14, 33], 5000, 50000),
    (4, [5, 11, 25], 8000, 80000),
]
PAYLOAD_MODES = ["missing-feature-values", "sequence-targets", "missing-feature-values+sequence-targets"]
NO_Y = object()          # "update(x)" without a target


def payload_pattern(k, snaps, mode, prnd):
    """Per stream position: (extra feature items, target or NO_Y, is_special).  'special' positions carry a missing feature
    value (NaN of several float types / None) and / or an EMPTY sequence target (tuple, list, str, array: a multi-label observation
    without an active label); the others carry finite values and non-empty sequence / scalar / absent targets.  Roughly a third of the
    positions is special, at least one of them inside the fill phase and one right after it."""
    import numpy as np
    nmax = max(snaps)
    lo_hi = (k, min(nmax, max(snaps[1], k + 2)))
    for _try in range(200):
        special = [prnd.random() < 0.35 for _ in range(nmax)]
        late = special[lo_hi[0]:lo_hi[1]]
        if any(special[:k]) and any(late) and not all(late):
            break
    else:
        special = [i % 3 == 0 for i in range(nmax)]
    missing = [float("nan"), None, np.nan, np.float64("nan"), np.float32("nan"), math.nan * 1.0]
    finite = [0.5, 3, -1.25, "red", np.float64(2.0), True, 0, 0.0]
    empty_y = [(), [], "", np.array([]), (), np.array([], dtype=int), []]
    full_y = [("a",), ["x", "y"], "ab", np.array([1, 0]), 3, NO_Y, ("a", "b", "c"), 0.5, [0], None, "n", ((),), [[]]]
    pat = []
    for i in range(nmax):
        sp = special[i]
        extra = {}
        if mode != "sequence-targets":
            names = ["a", "b", "c"][: 1 + prnd.randrange(3)]
            for nm in names:
                extra[nm] = prnd.choice(finite)
            if sp:
                for nm in prnd.sample(names, 1 + prnd.randrange(len(names))):
                    extra[nm] = prnd.choice(missing)
        y = NO_Y
        if mode != "missing-feature-values":
            y = prnd.choice(empty_y) if sp else prnd.choice(full_y)
        pat.append((extra, y, sp))
    return pat


def sample_payload(make, k, snaps, runs, pat, run):
    """Inclusion counts per (snapshot, position); observations are identified by their POSITION / object identity, never by value
    equality (NaN != NaN).  Returns (incl, structural findings)."""
    incl = {n: [0] * n for n in snaps}
    nmax = max(snaps)
    snapset = set(snaps)
    bad = []
    for r_ in range(runs):
        st = make()
        upd = st.update if r_ % 2 else None
        handed = []
        every = r_ % 4 == 0
        for i in range(nmax):
            extra, y, _sp = pat[i]
            obs = {"t": i}
            obs.update(extra)
            if r_ % 3 == 2:                       # the position key comes last in some executions
                obs = dict(extra)
                obs["t"] = i
            handed.append(obs)
            f = upd or st.update
            if y is NO_Y:
                f(obs)
            elif r_ % 5 == 1:
                f(x=obs, y=y)
            else:
                f(obs, y)
            n = i + 1
            if n >= k and (every or n in snapset):
                xs = st.get_data()[0]
                ts = [x["t"] for x in xs]
                if (len(xs) != k or len(set(ts)) != k or any(not (0 <= t < n) or handed[t] is not x for t, x in zip(ts, xs))) and len(bad) < 3:
                    bad.append(f"k={k}: after {n} observations get_data() holds {len(xs)} item(s) from positions {sorted(ts)[:12]} "
                               f"(expected {k} distinct observations of the first {n}); payload of the last observation: "
                               f"{ {kk: repr(v) for kk, v in obs.items()} }, target {'absent' if y is NO_Y else repr(y)}")
                if n in snapset:
                    c = incl[n]
                    for t in ts:
                        if 0 <= t < n:
                            c[t] += 1
    return incl, bad


def main(run):
    from ixai.storage import UniformReservoirStorage
    run.rule = ("R independent UniformReservoirStorage instances per (k, snapshot grid), every third configuration with other library objects (TreeStorage with a seed, other storages, trackers) constructed and used mid-stream and with a second reservoir fed the very same dict objects; exact two-sided binomial cell "
                "tests with Bonferroni-split budget eps=1e-9 per run: inclusion indicator of individual arrivals "
                "(k/n), every k-subset for k<=3,n<=7 (1/C(n,k)), pair co-inclusion k(k-1)/(n(n-1)), arrival-time "
                "bucket of a harness-chosen random stored item (|bucket|/n); every size 1..24 with coarse cells; very long streams (n/k up to 4e5, thorough 4e6) judged by the arrival quarter of a random stored item; every other execution drives a bound update method taken before the first update; evaluations = independent storage "
                "executions; non-trivial = distinct (snapshot, stored subset) outcomes observed")
    run.assumptions = ["executions are independent: fresh objects, library generators seeded once per configuration and left running",
                       f"false-alarm probability <= {EPS} per run; deviations below notes.max_min_detectable_deviation may be missed",
                       "random.random()==0.0 paths are covered by C07's scripted enumeration, not here"]
    run.require("ixai/storage/uniform_reservoir_storage.py:UniformReservoirStorage.update")
    thorough = run.tier == "thorough"
    sh, nsh = run.shard
    hrnd = random.Random(run.shard_seed ^ 0xABCDEF)
    mdd = 0.0
    grnd = random.Random(run.seed + 99)          # two extra configurations drawn from VERIF_SEED (same in every shard)
    grid = list(GRID)
    for _ in range(2):
        k = grnd.choice([6, 7, 8, 12, 17, 24, 33])
        grid.append((k, [k + 1, k + grnd.randrange(2, 9), 3 * k + grnd.randrange(5), 9 * k], 4000, 40000))
    for j, (k, snaps, rq, rt) in enumerate(grid):
        if j % nsh != sh:
            continue
        runs = rt if thorough else rq
        random.seed(run.shard_seed * 7919 + j)
        ct = CellTests(plan(k, snaps), eps=EPS / (len(GRID) + 4))
        interference = j % 3 == 1
        if interference:
            runs = runs // 3
        import numpy as np
        kt = [int, np.int64, int, np.int32, int, np.intp][j % 6]          # capacities given as NumPy integers in some configurations
        run.see("capacity-type", kt.__name__)
        with_y = j % 3 == 2          # some configurations store targets; every third observation arrives WITHOUT a label (y=None, the default)
        run.see("store-targets", with_y)
        incl, subsets, pairs, buck = sample(lambda: UniformReservoirStorage(size=kt(k), store_targets=with_y), k, snaps, runs, hrnd, interference, with_y)
        run.count("configs-with-interleaved-library-objects", int(interference))
        run.ok(runs, kind=f"k={k}")
        fails = []
        for n in snaps:
            for t in picks(k, n):
                r = ct.test(incl[n][t], runs, k / n, f"k={k} n={n} inclusion of arrival #{t + 1}")
                if r:
                    fails.append(("inclusion-law", r))
            if k <= 3 and n <= 7:
                for sub in itertools.combinations(range(n), k):
                    r = ct.test(subsets[n][sub], runs, 1 / math.comb(n, k), f"k={k} n={n} subset {sub}")
                    if r:
                        fails.append(("subset-law", r))
                for sub in subsets[n]:
                    run.nontriv(("sub", k, n, sub))
            if k >= 2:
                for pr in pair_picks(k, n):
                    r = ct.test(pairs[n][pr], runs, k * (k - 1) / (n * (n - 1)), f"k={k} n={n} pair {pr}")
                    if r:
                        fails.append(("pair-law", r))
            if n > 40:
                for b, (lo, hi) in enumerate(buckets(n)):
                    r = ct.test(buck[n][b], runs, (hi - lo) / n, f"k={k} n={n} arrival bucket [{lo},{hi})")
                    if r:
                        fails.append(("bucket-law", r))
            for t, c in incl[n].items():
                run.nontriv(("incl", k, n, t))
        mdd = max(mdd, ct.max_mdd)
        run.count("cell-tests", ct.done)
        run.notes[f"min_p_value k={k}"] = ct.min_p
        for mech, msg in fails[:6]:
            run.violation(mech, msg + f" over {runs} runs", {"k": k, "snapshots": snaps, "runs": runs,
                                                            "seed": run.shard_seed * 7919 + j})
        if len(run.samples) < 2:
            n0 = snaps[1]
            run.sample({"k": k, "snapshot_n": n0, "runs": runs, "expected_inclusion": k / n0,
                        "observed_inclusion_per_arrival": {str(t + 1): incl[n0][t] / runs for t in picks(k, n0)}})
    # ---- rich payloads: observations with missing feature values (NaN of several float types, None) and targets that are
    # sequences (tuples / lists / strings / arrays, EMPTY ones included, e.g. multi-label targets), with and without stored targets.
    # Every stream position must be retained with probability k/n whatever it carries; the stored items are k distinct
    # observations (object identity) of the stream so far.
    for jj, (k, snaps, rq, rt) in enumerate(PAYLOAD_GRID):
        if jj % nsh != sh % nsh:
            continue
        runs = rt if thorough else rq
        mode = PAYLOAD_MODES[(jj + run.seed) % 3]
        prnd = random.Random(run.seed * 1009 + jj * 17 + 3)
        pat = payload_pattern(k, snaps, mode, prnd)
        store_y = (jj + run.seed // 3) % 2 == 1
        random.seed(run.shard_seed * 15485863 + jj)
        pct = CellTests(sum(snaps), eps=EPS / (len(GRID) + 4) / len(PAYLOAD_GRID))
        incl, bad = sample_payload(lambda: UniformReservoirStorage(size=k, store_targets=store_y), k, snaps, runs, pat, run)
        run.ok(runs, kind=f"payload:{mode}")
        run.see("payload-mode", mode)
        run.see("payload-store-targets", store_y)
        nmax = max(snaps)
        run.count("payload-observations-with-missing-feature-value", runs * sum(1 for e, y, sp in pat if sp and mode != "sequence-targets"))
        run.count("payload-observations-with-empty-sequence-target", runs * sum(1 for e, y, sp in pat if sp and mode != "missing-feature-values"))
        run.count("payload-observations-with-nonempty-sequence-target",
                  runs * sum(1 for e, y, sp in pat if y is not NO_Y and hasattr(y, "__len__") and len(y) > 0))
        run.count("payload-observations-plain", runs * sum(1 for e, y, sp in pat if not sp))
        pf = []
        for n in snaps:
            for t in range(n):
                e_, y_, sp_ = pat[t]
                tag = ""
                if sp_:
                    tag = " carrying " + " and ".join(w for w, on in (("a missing feature value", mode != "sequence-targets"),
                                                                      ("an empty sequence target", mode != "missing-feature-values")) if on)
                elif t > 0 and pat[t - 1][2]:
                    tag = " (arrives right after a special observation)"
                r = pct.test(incl[n][t], runs, k / n, f"k={k} n={n} [{mode}] inclusion of arrival #{t + 1}{tag}")
                if r:
                    pf.append(r)
                if incl[n][t]:
                    run.nontriv(("payload-incl", k, n, t))
        run.notes[f"payload_min_detectable_deviation k={k}"] = pct.max_mdd
        run.count("cell-tests", pct.done)
        run.notes[f"min_p_value payload k={k}"] = pct.min_p
        for msg in bad[:2]:
            run.violation("stored-subset", msg, {"k": k, "mode": mode, "store_targets": store_y, "seed": run.shard_seed * 15485863 + jj})
        for msg in pf[:4]:
            run.violation("inclusion-law", msg + f" over {runs} runs", {"k": k, "snapshots": snaps, "runs": runs, "mode": mode,
                                                                        "store_targets": store_y, "seed": run.shard_seed * 15485863 + jj})
    # ---- thin slices of the size axis: EVERY reservoir size 1..24 with a coarse inclusion test (first, (k+1)-th, middle, last arrival)
    ks = [k for k in range(1, 25) if k % nsh == sh]
    runs = 1500 if not thorough else 20000
    ct = CellTests(4 * len(ks) + 1, eps=EPS / (len(GRID) + 4))
    random.seed(run.shard_seed * 31337 + 5)
    sweep_fails = []
    for k in ks:
        n = 3 * k + 2
        probe = sorted({0, k, n // 2, n - 1})
        cnt = collections.Counter()
        for _ in range(runs):
            st = UniformReservoirStorage(size=(k if k % 3 else __import__("numpy").int64(k)), store_targets=False)
            for i in range(n):
                st.update({"t": i})
            have = {x["t"] for x in st.get_data()[0]}
            for t in probe:
                cnt[t] += t in have
        run.ok(runs, kind="size-sweep")
        for t in probe:
            r = ct.test(cnt[t], runs, k / n, f"size-sweep k={k} n={n} inclusion of arrival #{t + 1}")
            if r:
                sweep_fails.append(r)
        run.nontriv(("size-sweep", k))
    # ---- very long streams (n/k of 1e5 .. 1e6): late arrivals must still be admitted at rate k/n.  One harness-chosen random
    # slot per execution: its arrival time falls into the first quarter of the stream with probability exactly 1/4.
    long_cfg = [(1, 400000, 60), (2, 600000, 30), (3, 900000, 24)] if not thorough else [(1, 4000000, 30), (3, 3000000, 24), (10, 4000000, 16)]
    lct = CellTests(2 * len(long_cfg), eps=EPS / (len(GRID) + 4))
    for jj, (k, n, reps_) in enumerate(long_cfg):
        if jj % nsh != sh % len(long_cfg) or sh >= len(long_cfg):
            continue
        early = late = 0
        for r_ in range(reps_):
            st = UniformReservoirStorage(size=k, store_targets=False)
            upd = st.update
            if r_ % 2:
                for i in range(n):
                    upd({"t": i})
            else:
                for i in range(n):
                    st.update({"t": i})
            xs = st.get_data()[0]
            t = xs[hrnd.randrange(len(xs))]["t"]
            early += t < n // 4
            late += t >= n - n // 4
        run.ok(reps_, kind="very-long-stream")
        run.count("very-long-stream-updates", n * reps_)
        for cnt_, what in ((early, "first"), (late, "last")):
            r = lct.test(cnt_, reps_, 0.25, f"k={k} n={n}: a random stored item stems from the {what} quarter of the stream")
            if r:
                sweep_fails.append(r)
        run.nontriv(("very-long", k, n))
    # ---- admission RATE at high repetition counts: tiny reservoirs on short streams cost a few hundred nanoseconds per update, so
    # hundreds of thousands (thorough: millions) of independent executions fit; the item in slot 0 stems from the last `last`
    # arrivals with probability exactly last / n.  A relative bias of the admission rate of ~2.5 % (thorough ~0.8 %) is visible here.
    rate_cfg = [(1, 14, 4), (1, 24, 6), (2, 30, 8), (1, 40, 10)]
    rct = CellTests(len(rate_cfg), eps=EPS / (len(GRID) + 4))
    for jj, (k, n, last) in enumerate(rate_cfg):
        if jj % nsh != sh % len(rate_cfg) or sh >= len(rate_cfg):
            continue
        reps_ = (300000 if not thorough else 4000000) // (1 if n <= 14 else 2 if n <= 30 else 3)
        random.seed(run.shard_seed * 104729 + jj)
        xs_ = [{"t": i} for i in range(n)]
        hits = 0
        for r_ in range(reps_):
            st = UniformReservoirStorage(size=k, store_targets=False)
            upd = st.update
            for x_ in xs_:
                upd(x_)
            hits += st.get_data()[0][0]["t"] >= n - last
        run.ok(reps_, kind="admission-rate")
        r = rct.test(hits, reps_, last / n, f"k={k} n={n}: the item in slot 0 stems from the last {last} arrivals")
        if r:
            sweep_fails.append(r)
        run.nontriv(("admission-rate", k, n))
    mdd = max(mdd, rct.max_mdd) if rct.done else mdd
    run.notes["admission_rate_min_detectable_deviation"] = rct.max_mdd
    # ---- exact law of the overwritten slot (float draws pinned, integer / bit draws enumerated with exact weights): 1/k each,
    # compared with == ; a slot bias of any size in the index draw is a deterministic finding here
    from fractions import Fraction
    from ..exactlaw import replaced_slot_law, Budget
    for k in [k_ for k_ in (list(range(1, 13)) + ([100, 127] if thorough else [33])) if k_ % nsh == sh % nsh]:
        for c in (0.5, 0.9):
            try:
                law, runs_x = replaced_slot_law(lambda: UniformReservoirStorage(size=k, store_targets=False), k, c)
            except (Budget, NotImplementedError):
                run.count("exact-law-budget-exceeded")
                continue
            if set(law) == {"no-replacement"}:
                run.count("slot-law-no-replacement-within-horizon")
                continue
            from ..exactlaw import UNRESOLVED
            un_ = law.pop(UNRESOLVED, 0)
            if float(un_) > 1e-10:
                run.count("exact-law-budget-exceeded")
                continue
            run.ok(kind="exact-slot-law")
            run.count("exact-law-executions", runs_x)
            if set(law) != set(range(k)) or any(abs(q_ - Fraction(1, k)) > un_ for q_ in law.values()):
                run.violation("slot-law", f"k={k} (float draws pinned to {c}): the overwritten slot has the exact law "
                                          f"{ {str(o): str(q) for o, q in sorted(law.items(), key=lambda kv: str(kv[0]))[:8]} }, expected 1/{k} for each of the {k} slots",
                              {"k": k, "pinned_float": c})
            run.nontriv(("slot-law", k, c))
    run.count("cell-tests", ct.done + lct.done)
    for msg in sweep_fails[:3]:
        run.violation("inclusion-law", msg, {"size_sweep_or_long_stream": True, "runs": runs})
    run.notes["max_min_detectable_deviation"] = max(mdd, ct.max_mdd)
