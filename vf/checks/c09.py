"""C09 - GeometricReservoirStorage inclusion law, acceptance probability, uniform slot; p=1 always stores."""
import collections
import copy
import pickle
import math
import random

from ..stats import CellTests, EPS
from ..scriptrng import dfs, PALETTE_SMALL, Scripted, installed

SHARDS = {"quick": 4, "thorough": 16}
TIMEOUT = {"quick": 900, "thorough": 7200}

# (k, p or None=default, snapshots, runs quick, runs thorough)
GRID = [
    (1, None, [2, 3, 6], 30000, 300000),
    (1, 0.5, [2, 4, 9], 30000, 300000),
    (2, None, [3, 5, 9, 20], 20000, 200000),
    (3, 0.9, [4, 6, 12], 20000, 200000),
    (3, 0.1, [5, 20, 60], 8000, 80000),
    (5, None, [6, 10, 30, 80], 6000, 60000),
    (5, 0.5, [7, 15, 40], 8000, 80000),
    (10, None, [11, 30, 100], 4000, 40000),
    (10, 1.0, [11, 14, 30], 6000, 60000),
    (100, None, [101, 200, 600], 500, 5000),
    (4, 0.0, [5, 12, 30], 3000, 30000),
    (2, 1.0, [3, 4, 7], 20000, 200000),
]


def picks(k, n):
    if n <= 30:
        return list(range(n))
    return sorted({0, k - 1, k, k + 1, n // 2, n - k - 1, n - 3, n - 2, n - 1} & set(range(n)))


def law(k, p, n, t):
    """Retention probability at time n of the arrival with 0-based index t."""
    if t < k:
        return (1 - p / k) ** (n - k)
    return p * (1 - p / k) ** (n - 1 - t)


def main(run):
    from ixai.storage import GeometricReservoirStorage
    run.rule = ("R independent GeometricReservoirStorage instances per (k, p, snapshot grid); exact binomial cell tests "
                "(eps=1e-9 per run, Bonferroni): retention of individual arrivals against p(1-p/k)^(n-t) / (1-p/k)^(n-k), "
                "acceptance frequency once full (p), replaced slot uniform (1/k, decoded from consecutive get_data() "
                "snapshots); EXACT one-step transition law from full reservoirs (k=1..8, p in {default, 0, .5, .7, 1, two drawn from VERIF_SEED}) obtained by enumerating the implementation's own draws (integers exhaustively, float draws by break-point search): entry probability p and p/k per slot to 1e-9; deterministic: p=1 stores every new observation (also on every scripted path), "
                "acceptance threshold at p-ulp / p+ulp via the scripted generator; evaluations = independent executions; "
                "non-trivial = distinct (k,p,snapshot,arrival) retention cells with a non-zero count")
    run.assumptions = ["executions independent (fresh objects, generators seeded once per configuration)",
                       f"false-alarm probability <= {EPS} per run; p=0 is tested statistically (random()==0.0 has probability 2^-53)"]
    run.require("ixai/storage/geometric_reservoir_storage.py:GeometricReservoirStorage.update")
    thorough = run.tier == "thorough"
    sh, nsh = run.shard
    mdd = 0.0
    grnd = random.Random(run.seed + 77)          # extra (k, p) configurations drawn from VERIF_SEED (same in every shard)
    grid = list(GRID)
    for _ in range(3):
        k = grnd.choice([1, 2, 3, 4, 6, 8])
        grid.append((k, round(grnd.uniform(0.05, 0.98), 3), [k + 1, k + grnd.randrange(2, 7), 4 * k + 3], 12000, 120000))
    for j, (k, p, snaps, rq, rt) in enumerate(grid):
        if j % nsh != sh:
            continue
        runs = rt if thorough else rq
        pe = 1 / k if p is None else p
        random.seed(run.shard_seed * 104729 + j)
        ntests = sum(len(picks(k, n)) for n in snaps) + 1 + (k if k <= 10 else 10)
        ct = CellTests(ntests, eps=EPS / (len(GRID) + 3))
        incl = {n: collections.Counter() for n in snaps}
        offers = accepts = 0
        slots = collections.Counter()
        nmax, snapset = max(snaps), set(snaps)
        fails = []
        interference = j % 3 == 2
        import numpy as np
        kt = [int, np.int64, int, np.int32, np.intp, int, int][j % 7]      # capacities given as NumPy integers in some configurations
        run.see("capacity-type", kt.__name__)
        irnd = random.Random(run.shard_seed + j)
        if interference:
            from .c08 import interfere
            runs = runs // 3
            run.count("configs-with-interleaved-library-objects")
        for _ in range(runs):
            with_y = j % 2 == 1         # every other configuration stores targets: an observation is retained as a PAIR (x, y)
            st = GeometricReservoirStorage(size=kt(k), constant_probability=p, store_targets=with_y)
            upd = st.update if _ % 2 else None        # every other execution: a bound method taken before the first update
            prev = None
            at = irnd.randrange(nmax) if interference and irnd.random() < 0.5 else -1
            for i in range(nmax):
                if i == at:
                    interfere()
                x = {"t": i}
                if interference and i % 9 == 7:
                    x = ("record", i)        # a non-dict record; whatever the storage does with it, the caller carries on
                try:
                    (upd or st.update)(x, ("target", i)) if with_y else (upd or st.update)(x)
                except Exception:
                    pass
                if _ % 5 == 3 and i in (3, nmax // 2):      # checkpointing: the stream continues on a deep copy / pickle round trip
                    st = copy.deepcopy(st) if (i + _) % 2 else pickle.loads(pickle.dumps(st))
                    upd = st.update if upd is not None else None
                cur = [(d["t"] if isinstance(d, dict) else d[1]) for d in st.get_data()[0]]
                if with_y and [yy[1] for yy in st.get_data()[1]] != cur:
                    fails.append(("replacement-shape", f"k={k} p={pe} store_targets=True: after update {i + 1} the stored targets {[yy[1] for yy in st.get_data()[1]]} "
                                                       f"do not belong to the stored observations {cur}"))
                    break
                if i >= k and len(cur) != k:
                    fails.append(("replacement-shape", f"k={k} p={pe}: a full reservoir holds {len(cur)} items after update {i + 1}"))
                    break
                if i >= k:
                    offers += 1
                    if i in cur:
                        accepts += 1
                        ch = [s for s in range(k) if prev[s] != cur[s]]
                        if len(ch) != 1 or cur[ch[0]] != i:
                            fails.append(("replacement-shape", f"k={k} p={pe}: update changed slots {ch}: {prev} -> {cur}"))
                        else:
                            slots[ch[0] if k <= 10 else ch[0] * 10 // k] += 1
                    elif cur != prev:
                        fails.append(("replacement-shape", f"k={k} p={pe}: contents changed without storing the new item: {prev} -> {cur}"))
                    if pe == 1.0 and i not in cur:
                        fails.append(("p1-newest-not-stored", f"k={k} p=1: observation #{i + 1} was not stored"))
                prev = cur
                if i + 1 in snapset:
                    for t in cur:
                        incl[i + 1][t] += 1
        run.ok(runs, kind=f"k={k},p={p}")
        for n in snaps:
            for t in picks(k, n):
                r = ct.test(incl[n][t], runs, law(k, pe, n, t), f"k={k} p={pe:.3g} n={n} retention of arrival #{t + 1}")
                if r:
                    fails.append(("inclusion-law", r))
                if incl[n][t]:
                    run.nontriv(("ret", k, p, n, t))
        r = ct.test(accepts, offers, pe, f"k={k} p={pe:.3g} acceptance frequency once full")
        if r:
            fails.append(("acceptance-probability", r))
        nb = k if k <= 10 else 10
        for s in range(nb):
            r = ct.test(slots[s], accepts, 1 / nb, f"k={k} p={pe:.3g} replaced slot{'' if k <= 10 else ' decile'} {s}")
            if r:
                fails.append(("slot-uniformity", r))
        mdd = max(mdd, ct.max_mdd)
        run.count("cell-tests", ct.done)
        run.count("replacements-decoded", accepts)
        run.notes[f"min_p_value k={k} p={p}"] = ct.min_p
        seen = set()
        for mech, msg in fails:
            if mech in seen:
                continue
            seen.add(mech)
            run.violation(mech, msg + f" ({runs} runs)", {"k": k, "p": p, "snapshots": snaps, "runs": runs,
                                                          "seed": run.shard_seed * 104729 + j})
        if len(run.samples) < 2:
            n0 = snaps[1]
            run.sample({"k": k, "p": pe, "snapshot_n": n0, "runs": runs,
                        "retention_observed_vs_law": {str(t + 1): [incl[n0][t] / runs, law(k, pe, n0, t)] for t in picks(k, n0)[:8]},
                        "acceptance": [accepts, offers], "slot_counts": dict(slots)})
    # ---- streams with REPEATED feature vectors (low-cardinality / constant data, the same dict object sent again): the
    #      observations are distinguishable by their targets only (store_targets=True, distinct targets), a stored observation is
    #      identified by its target; same oracles: p=1 stores every arrival, acceptance p, uniform slot, retention law
    rgrid = [(1, 0.5, 6), (2, None, 9), (3, 1.0, 12), (4, 1.0, 20), (3, 0.9, 8), (5, None, 30), (5, 0.5, 15), (2, 1.0, 7),
             (8, 0.3, 40), (10, 1.0, 25), (4, None, 40), (6, 0.7, 20), (1, None, 5), (7, 1.0, 16)]
    for _ in range(2):
        k = grnd.choice([2, 3, 4, 6, 8])
        rgrid.append((k, round(grnd.uniform(0.05, 0.98), 3), 3 * k + grnd.randrange(2, 9)))
    modes = ["constant", "same-object", "two-values", "mixed", "small-alphabet"]
    moff = grnd.randrange(len(modes))
    runs_r = 30000 if thorough else 3000
    for j, (k, p, n) in enumerate(rgrid):
        if j % nsh != sh:
            continue
        pe = 1 / k if p is None else p
        mode = modes[(j + moff) % len(modes)]
        run.see("repeated-feature-mode", mode)
        shared = {"colour": "red", "size": 3}
        if mode == "constant":
            feat = lambda i: {"a": 1, "b": 0}                                  # equal by value, a fresh object every time
        elif mode == "same-object":
            feat = lambda i: shared                                            # the caller re-sends one dict object
        elif mode == "two-values":
            feat = lambda i: {"colour": "red", "shape": i % 2}
        elif mode == "mixed":
            feat = lambda i: {"v": i % 3} if i % 2 else {"t": i}               # repeated and never-repeated vectors interleaved
        else:
            feat = lambda i: {"c": (i * i + i // 3) % 4, "d": 0.5}
        tgt = (lambda i: i) if j % 2 else (lambda i: ("target", i))
        untgt = (lambda y: y) if j % 2 else (lambda y: y[1])
        random.seed(run.shard_seed * 15485863 + j)
        nb = k if k <= 10 else 10
        ct = CellTests(len(picks(k, n)) + 1 + nb, eps=EPS / (len(GRID) + 3) / 4)
        incl = collections.Counter()
        slots = collections.Counter()
        offers = accepts = equal_seen = 0
        fails = []
        for _ in range(runs_r):
            st = GeometricReservoirStorage(size=k, constant_probability=p, store_targets=True)
            prev = None
            for i in range(n):
                x = feat(i)
                if i >= k and x in st.get_data()[0]:
                    equal_seen += 1          # the reservoir already holds an observation with these feature values
                st.update(x, tgt(i))
                xs, ys = st.get_data()
                cur = [untgt(y) for y in ys]
                if len(xs) != len(cur) or any(xs[s] != feat(cur[s]) for s in range(len(cur))):
                    fails.append(("replacement-shape", f"k={k} p={pe} features '{mode}': after update {i + 1} the stored features {list(xs)} "
                                                       f"do not belong to the stored targets {cur}"))
                    break
                if i >= k:
                    if len(cur) != k:
                        fails.append(("replacement-shape", f"k={k} p={pe} features '{mode}': a full reservoir holds {len(cur)} items after update {i + 1}"))
                        break
                    offers += 1
                    if i in cur:
                        accepts += 1
                        ch = [s for s in range(k) if prev[s] != cur[s]]
                        if len(ch) != 1 or cur[ch[0]] != i:
                            fails.append(("replacement-shape", f"k={k} p={pe} features '{mode}': update changed slots {ch}: {prev} -> {cur}"))
                        else:
                            slots[ch[0]] += 1
                    elif cur != prev:
                        fails.append(("replacement-shape", f"k={k} p={pe} features '{mode}': contents changed without storing the new item: {prev} -> {cur}"))
                    if pe == 1.0 and i not in cur:
                        fails.append(("p1-newest-not-stored", f"k={k} p=1 features '{mode}' (observations identified by their targets): "
                                                              f"observation #{i + 1} = ({x}, {tgt(i)!r}) was not stored; targets held: {cur}"))
                prev = cur
            for t in cur:
                incl[t] += 1
        run.ok(runs_r, kind="repeated-features")
        run.count("repeated-feature-streams", runs_r)
        run.count("repeated-feature-offers-with-equal-features-stored", equal_seen)
        for t in picks(k, n):
            r = ct.test(incl[t], runs_r, law(k, pe, n, t), f"k={k} p={pe:.3g} n={n} features '{mode}' retention of arrival #{t + 1} (by target)")
            if r:
                fails.append(("inclusion-law", r))
            if incl[t]:
                run.nontriv(("ret-rep", k, p, n, t, mode))
        r = ct.test(accepts, offers, pe, f"k={k} p={pe:.3g} features '{mode}' acceptance frequency once full")
        if r:
            fails.append(("acceptance-probability", r))
        for s in range(nb):
            r = ct.test(slots[s], accepts, 1 / nb, f"k={k} p={pe:.3g} features '{mode}' replaced slot {s}")
            if r:
                fails.append(("slot-uniformity", r))
        mdd = max(mdd, ct.max_mdd)
        run.count("cell-tests", ct.done)
        seen = set()
        for mech, msg in fails:
            if mech in seen:
                continue
            seen.add(mech)
            run.violation(mech, msg + f" ({runs_r} runs)", {"k": k, "p": p, "n": n, "runs": runs_r, "features": mode, "store_targets": True,
                                                            "seed": run.shard_seed * 15485863 + j})
    # ---- thin slices: EVERY size 1..16 with a probability drawn from VERIF_SEED, coarse retention / acceptance tests
    ks = [k for k in range(1, 17) if k % nsh == sh]
    runs_s = 2500 if not thorough else 30000
    srnd = random.Random(run.seed + 1234)
    ps = {k: round(srnd.uniform(0.05, 1.0), 2) for k in range(1, 17)}
    ct = CellTests(3 * len(ks) + 1, eps=EPS / (len(GRID) + 3))
    random.seed(run.shard_seed * 7907 + 3)
    for k in ks:
        p = ps[k]
        n = 3 * k + 2
        kept_new = kept_last = acc = off = 0
        for _ in range(runs_s):
            st = GeometricReservoirStorage(size=k, constant_probability=p)
            for i in range(n):
                st.update({"t": i})
                if i >= k:
                    off += 1
                    acc += i in [d["t"] for d in st.get_data()[0]]
            have = {d["t"] for d in st.get_data()[0]}
            kept_new += k in have
            kept_last += (n - 1) in have
        run.ok(runs_s, kind="size-sweep")
        for got, tot, law_p, label in ((kept_new, runs_s, law(k, p, n, k), f"retention of arrival #{k + 1}"),
                                       (kept_last, runs_s, law(k, p, n, n - 1), "retention of the last arrival"),
                                       (acc, off, p, "acceptance frequency")):
            r = ct.test(got, tot, law_p, f"size-sweep k={k} p={p} n={n} {label}")
            if r:
                run.violation("inclusion-law" if "retention" in label else "acceptance-probability", r, {"size_sweep": True, "k": k, "p": p})
        run.nontriv(("size-sweep", k, p))
    run.count("cell-tests", ct.done)
    run.notes["max_min_detectable_deviation"] = max(mdd, ct.max_mdd)
    # ---- exact one-step transition law under the implementation's own draws (no sampling error): from a full reservoir the
    #      next observation must enter with probability exactly p and replace each slot with probability exactly p/k
    pass  # (copy is imported at module level)
    # ---- exact law of the overwritten slot with the acceptance draw pinned (0.0: always accepted): 1/k each, compared with ==
    from fractions import Fraction as _Fr
    from ..exactlaw import replaced_slot_law, Budget as _Budget
    for k in [k_ for k_ in (list(range(1, 13)) + ([100, 127] if thorough else [33])) if k_ % nsh == sh % nsh]:
        for p_ in (None, 1.0, 0.5):
            try:
                slaw, runs_x = replaced_slot_law(lambda: GeometricReservoirStorage(size=k, constant_probability=p_, store_targets=False), k, 0.0, max_updates=k + 3)
            except (_Budget, NotImplementedError):
                run.count("exact-law-budget-exceeded")
                continue
            from ..exactlaw import UNRESOLVED as _UNR
            un_ = slaw.pop(_UNR, 0)
            if float(un_) > 1e-10:
                run.count("exact-law-budget-exceeded")
                continue
            run.ok(kind="exact-slot-law")
            run.count("exact-law-executions", runs_x)
            if set(slaw) != set(range(k)) or any(abs(q_ - _Fr(1, k)) > un_ for q_ in slaw.values()):
                run.violation("slot-uniformity", f"k={k} p={p_} (acceptance draw pinned to 0.0): the overwritten slot has the exact law "
                                                 f"{ {str(o): str(q) for o, q in sorted(slaw.items(), key=lambda kv: str(kv[0]))[:8]} }, expected 1/{k} for each slot",
                              {"k": k, "p": p_, "exact_slot_law": True})
            run.nontriv(("slot-law", k, str(p_)))
    from ..exactlaw import exact_law, Budget
    xrnd = random.Random(run.seed + 555)
    import fractions
    import numpy as np
    cases = [(k, p) for k in range(1, 9) for p in (None, 0.5, 1.0, 0.0, 0.7, round(xrnd.uniform(0.01, 0.99), 3), round(xrnd.uniform(0.01, 0.99), 4))]
    # the same probabilities in other legal numeric forms: int end points, NumPy floats, rationals
    cases += [(k, p) for k in (1, 2, 5) for p in (1, 0, np.float32(0.75), np.float64(0.3), fractions.Fraction(3, 4))]
    for ci, (k, p) in enumerate(cases):
        if ci % nsh != sh:
            continue
        pe = 1 / k if p is None else float(p)
        for warm, rep in ((0, 0), (1, 0), (7, 0), (2 + ci % 3, 1 + ci % 2)):
            random.seed(run.shard_seed + ci)
            if rep:
                # repeated feature vectors (rep=1: constant, rep=2: two values); the observations differ by their targets only,
                # so the stored PAIRS are identified by target
                feat = (lambda i_: {"a": 1, "b": 0}) if rep == 1 else (lambda i_: {"a": 1, "b": i_ % 2})
                base = GeometricReservoirStorage(size=k, constant_probability=p, store_targets=True)
                for i in range(k + warm):
                    base.update(feat(i), i)
                before = list(base.get_data()[1])
                run.count("exact-law-repeated-feature-states")

                def scen():
                    st = copy.deepcopy(base)
                    st.update(feat(k + warm), 10 ** 6)
                    return tuple(st.get_data()[1])
            else:
                base = GeometricReservoirStorage(size=k, constant_probability=p)
                for i in range(k + warm):
                    base.update({"t": i})
                before = [d["t"] for d in base.get_data()[0]]

                def scen():
                    st = copy.deepcopy(base)
                    st.update({"t": 10 ** 6})
                    return tuple(d["t"] for d in st.get_data()[0])
            try:
                lawd, runs_x, fsites = exact_law(scen)
            except (Budget, NotImplementedError):      # (a draw form the scripted generators do not model: this sub-monitor cannot judge)
                run.count("exact-law-budget-exceeded")
                continue
            from ..exactlaw import UNRESOLVED
            if float(lawd.pop(UNRESOLVED, 0)) > 1e-10:       # (a retry loop whose tail could not be enumerated to sufficient depth)
                run.count("exact-law-budget-exceeded")
                continue
            tot_ = sum(lawd.values())
            lawd = {o_: q_ / tot_ for o_, q_ in lawd.items()}
            run.ok(kind="exact-transition-law")
            run.count("exact-law-executions", runs_x)
            stay = float(lawd.get(tuple(before), 0))
            slot_p = []
            okshape = True
            for j in range(k):
                after = list(before)
                after[j] = 10 ** 6
                slot_p.append(float(lawd.get(tuple(after), 0)))
            if abs(sum(float(q) for q in lawd.values()) - 1) > 1e-9 or abs(stay + sum(slot_p) - 1) > 1e-9:
                okshape = False
            replay = {"k": k, "p": repr(p), "state": before, "exact_law": {str(o): float(q) for o, q in lawd.items()},
                      "features": ["distinct", "constant dict, distinct targets", "two feature vectors, distinct targets"][rep]}
            if not okshape:
                run.violation("replacement-shape", f"k={k} p={pe}: one update from {before} leads to states other than 'unchanged' / "
                                                   f"'one slot replaced by the new item': {replay['exact_law']}", replay)
            elif abs(sum(slot_p) - pe) > (1e-6 if type(p).__name__ == "float32" else 1e-9):     # (a float32 p compares in float32)
                run.violation("acceptance-probability", f"k={k} p={pe} (state after {k + warm} updates): the new observation enters with "
                                                        f"probability exactly {sum(slot_p):.12g}, not {pe:.12g}", replay)
            elif any(abs(q - pe / k) > (1e-6 if type(p).__name__ == "float32" else 1e-9) for q in slot_p):
                run.violation("slot-uniformity", f"k={k} p={pe}: slots are replaced with probabilities {slot_p}, expected {pe / k:.12g} each", replay)
            run.nontriv(("exact", k, repr(p), warm, rep))
    # ---- deterministic clauses via the scripted generator (shard 0)
    if sh == 0:
        for k in (1, 2, 3):
            def scen(rng, k=k):
                st = GeometricReservoirStorage(size=k, constant_probability=1.0)
                for i in range(k + 3):
                    st.update({"t": i})
                    if i not in [d["t"] for d in st.get_data()[0]]:
                        return i
                return None
            for script, res, rng in dfs(scen, PALETTE_SMALL + [0.5, 1e-12], max_paths=300000):
                if script is None:
                    run.count("scripted-enumeration-truncated")
                    break
                run.ok(kind="p1-scripted-path")
                if res is not None:
                    run.violation("p1-newest-not-stored", f"k={k} p=1 scripted draws {script}: observation #{res + 1} not stored",
                                  {"k": k, "script": script})
                    break
        for k, p in ((1, 0.5), (2, 0.3), (3, 0.75), (4, None)):
            pe = 1 / k if p is None else p
            for val, want in ((math.nextafter(pe, -1.0), True), (math.nextafter(pe, 2.0), False), (0.0, True),
                              (1 - 2 ** -53, pe >= 1.0)):
                rng = Scripted([0, 0], [val])
                with installed(rng):
                    st = GeometricReservoirStorage(size=k, constant_probability=p)
                    for i in range(k + 1):
                        st.update({"t": i})
                    got = k in [d["t"] for d in st.get_data()[0]]
                run.ok(kind="threshold")
                if got != want:
                    run.violation("acceptance-threshold", f"k={k} p={pe}: uniform draw {val!r} {'accepted' if got else 'rejected'}, "
                                                          f"expected {'accepted' if want else 'rejected'}", {"k": k, "p": p, "draw": val})
