"""C10 - Welford / exponential smoothing equal their closed forms (shipped update code run on exact rationals;
line paths of update recorded)."""
import math
import random
import sys
from fractions import Fraction

import numpy as np

from ..qnum import Q, tofrac

SHARDS = {"quick": 1, "thorough": 16}


class PathRecorder:
    """Records the sequence of executed lines of chosen code objects (sys.monitoring tool 4)."""
    TOOL = 4

    def __init__(self, codes):
        self.codes, self.cur, self.on = codes, [], False
        mon = getattr(sys, "monitoring", None)
        if mon is None:
            return
        try:
            mon.use_tool_id(self.TOOL, "vf-line-path")
        except ValueError:
            return
        mon.register_callback(self.TOOL, mon.events.LINE, lambda code, line: self.cur.append(line))
        for c in codes:
            mon.set_local_events(self.TOOL, c, mon.events.LINE)
        self.on = True

    def take(self):
        p, self.cur = tuple(self.cur), []
        return p

    def close(self):
        if self.on:
            mon = sys.monitoring
            for c in self.codes:
                mon.set_local_events(self.TOOL, c, 0)
            mon.free_tool_id(self.TOOL)


def gen_stream(rnd, n, kind):
    big = 2 ** 40
    if kind == "random":
        return [Q(rnd.randrange(-big, big), rnd.randrange(1, 2 ** 20)) for _ in range(n)]
    if kind == "ints":
        return [Q(rnd.randrange(-1000, 1000)) for _ in range(n)]   # plain ints are float arithmetic: float-types section
    if kind == "negative":
        return [Q(-rnd.randrange(1, big), rnd.randrange(1, 999)) for _ in range(n)]
    if kind == "constant":
        c = Q(rnd.randrange(-big, big), 7)
        return [c] * n
    if kind == "zeros":
        return [Q(0)] * n
    if kind == "monotone":
        return sorted(Q(rnd.randrange(-big, big), 3) for _ in range(n))
    if kind == "alternating":
        return [Q((-1) ** i * rnd.randrange(1, big), 11) for i in range(n)]
    if kind == "huge-tiny":
        return [Q(rnd.randrange(1, 9) * 10 ** rnd.choice([-30, -3, 0, 25]), 1) if rnd.random() < .5
                else Q(1, rnd.randrange(1, 9) * 10 ** rnd.choice([0, 20])) for _ in range(n)]
    if kind == "fractions":
        return [Fraction(rnd.randrange(-999, 999), rnd.randrange(1, 99)) for _ in range(n)]
    if kind == "mean-insert":
        out, tot = [], Fraction(0)
        for i in range(n):
            if i >= 2 and i % 3 == 2:
                v = Q(tot / i)               # exactly the running mean of everything seen so far
            else:
                v = Q(rnd.randrange(-60, 60), rnd.choice([1, 2, 3]))
            out.append(v)
            tot += v.f
        return out
    if kind == "repeated":
        pool = [Q(rnd.randrange(-9, 9), 2) for _ in range(3)]
        return [rnd.choice(pool) for _ in range(n)]
    if kind == "with-zeros":      # exact zeros sprinkled between non-zero values (the filler value of MultiValueTracker)
        return [Q(0) if rnd.random() < 0.3 else Q(rnd.randrange(-40, 41), rnd.choice([1, 2, 5])) for _ in range(n)]
    if kind == "feedback":        # every third value is replaced in the loop by the smoothing tracker's OWN current value
        return [Q(rnd.randrange(-40, 41), rnd.choice([1, 2, 4])) for _ in range(n)]
    raise ValueError(kind)


KINDS = ["random", "ints", "negative", "constant", "zeros", "monotone", "alternating", "huge-tiny", "fractions", "repeated", "mean-insert",
         "with-zeros", "feedback"]


def fr(v):
    return tofrac(v)


def tracker_subclasses():
    """User-defined subclasses that add nothing to the statistics ARE Welford / smoothing trackers: a third of the streams each run
    through a direct subclass and through a subclass of a subclass (extra property / class attribute, no override).  Built once,
    as module-level names so that they pickle."""
    g = globals()
    if "PlainWelford" not in g:
        from ixai.utils.tracker import WelfordTracker, ExponentialSmoothingTracker

        class PlainWelford(WelfordTracker):
            pass

        class NamedWelford(PlainWelford):
            label = "named"

            @property
            def spread(self):
                return self.std

        class PlainSmoothing(ExponentialSmoothingTracker):
            pass

        class NamedSmoothing(PlainSmoothing):
            label = "named"

            @property
            def level(self):
                return self.get()

        for c in (PlainWelford, NamedWelford, PlainSmoothing, NamedSmoothing):
            c.__qualname__ = c.__name__
            c.__module__ = __name__
            g[c.__name__] = c
    return g["PlainWelford"], g["NamedWelford"], g["PlainSmoothing"], g["NamedSmoothing"]


def main(run):
    from ixai.utils.tracker import WelfordTracker, ExponentialSmoothingTracker
    run.rule = ("streams of exact rationals (13 value patterns (incl. values equal to the running mean or to the tracker's own current value, exact zeros between non-zero values) x lengths 0..300, thorough to 4096; plus streams of ~10^4 (thorough ~10^5) updates on ONE tracker object checked at every 2^k-1,2^k,2^k+1 and 1000s) pushed through the shipped "
                "WelfordTracker / ExponentialSmoothingTracker update code; after every update mean, population variance, N and "
                "sum alpha(1-alpha)^(n-i)v_i compared with == against closed forms, std against sqrt; linearity, min<=mean<=max "
                "and convex-hull clauses asserted on the exact runs; float / NumPy-scalar streams compared with the exact result "
                "under a generous bound; every update's line path recorded; evaluations = closed-form comparisons; "
                "non-trivial = streams with >= 3 distinct values, distinct by (pattern, length, alpha, draw)")
    run.assumptions = ["not a proof by induction (outside runtime monitoring): agreement on sampled rational points per length; "
                       "with one line path the state is a fixed rational function of the inputs (Schwartz-Zippel argument in DESIGN C10)",
                       "Python's Fraction arithmetic is trusted"]
    run.require("ixai/utils/tracker/welford.py:WelfordTracker.update",
                "ixai/utils/tracker/exponential_smoothing.py:ExponentialSmoothingTracker.update")
    thorough = run.tier == "thorough"
    run.require_count("subclassed-tracker-streams")
    rnd = random.Random(run.shard_seed)
    rec = PathRecorder([WelfordTracker.update.__code__, ExponentialSmoothingTracker.update.__code__])
    wpaths, epaths = set(), set()
    lengths = [0, 1, 2, 3, 5, 8, 17, 33, 64, 129, 256, 300]      # (beyond 256: CPython's small-int cache ends there)
    reps = 2 if not thorough else 3
    if thorough:
        lengths += [512, 1024] + ([4096] if run.shard[0] % 4 == 0 else [])
    alphas = [Q(0), Q(1), Q(1, 3), Q(1, 1000), 0.25, 0.5, 1, 0, 1.0]
    bad = 0

    PlainWelford, NamedWelford, PlainSmoothing, NamedSmoothing = tracker_subclasses()
    variants = [(WelfordTracker, ExponentialSmoothingTracker), (PlainWelford, PlainSmoothing), (NamedWelford, NamedSmoothing)]
    cfg_i = 0
    for kind in KINDS:
        for n in lengths:
            for rep in range(reps):
                vals = gen_stream(rnd, n, kind)
                fv = [fr(v) for v in vals]
                alpha = rnd.choice(alphas + [Q(rnd.randrange(0, 1001), 1000)])
                if isinstance(alpha, float) and kind == "fractions":
                    alpha = Q(alpha)     # Fraction/int inputs times a float alpha would be float arithmetic (C20's subject)
                fa = fr(alpha)
                WT, ET = variants[cfg_i % 3]
                cfg_i += 1
                if WT is not WelfordTracker:
                    run.count("subclassed-tracker-streams")
                w, e = WT(), ET(alpha)
                # linearity partners
                a, b = Q(rnd.randrange(-9, 10), 4), Q(rnd.randrange(-9, 10), 5)
                other = [Q(fr(v)) for v in gen_stream(rnd, n, rnd.choice(KINDS))]
                w2, w3, e2, e3 = WelfordTracker(), WelfordTracker(), ExponentialSmoothingTracker(alpha), ExponentialSmoothingTracker(alpha)
                s1 = s2 = Fraction(0)
                sparse_reads = rep % 2 == 1
                if rnd.random() < 0.5:      # reading a fresh tracker (before the first update) must not change it
                    _ = (w.var, w.std, w.mean, w.get(), w(), e.get(), e(), w.N, e.N)
                    run.ok(kind="pure-read-before-first-update")
                    if not (w.N == 0 and e.N == 0 and fr(w.var) == 0 and fr(w.mean) == 0 and fr(e.get()) == 0):
                        run.violation("empty-stream", f"fresh trackers after reads: N={w.N},{e.N} var={w.var!r} mean={w.mean!r}", {"case": "reads before first update"})
                rec.take()
                reinit_at = 0
                full_every = 1 if n <= 64 else max(1, n // 16)
                tag = f"{kind} n={n} alpha={alpha!r}"
                if run.evaluations == 0 or (len(run.samples) < 3 and n == 5 and kind in ("random", "fractions")):
                    run.sample({"pattern": kind, "values": vals[:6], "alpha": alpha, "length": n})
                if n == 0:
                    run.ok(2, kind="empty")
                    if not (w.N == 0 and e.N == 0 and e.get() == 0):
                        run.violation("empty-stream", f"fresh trackers report N={w.N},{e.N} value {e.get()!r}", {"case": tag})
                    continue
                for i, v in enumerate(vals):
                    if rep == 0 and n >= 6 and i == n // 3 and kind in ("random", "negative", "with-zeros"):
                        # the caller RE-INITIALISES the tracker objects in place (t.__init__(...)): from then on they are new trackers
                        w.__init__()
                        e.__init__(alpha)
                        for tr_ in (w2, w3):
                            tr_.__init__()
                        for tr_ in (e2, e3):
                            tr_.__init__(alpha)
                        s1 = s2 = Fraction(0)
                        reinit_at = i
                        run.count("re-initialised-streams")
                    if rep == 1 and n >= 4 and i == n // 2:
                        # checkpoint: the stream continues on a deep copy / pickle round trip; the originals are fed other values from now on
                        import copy
                        import pickle
                        w_old, e_old = w, e
                        w, e = (copy.deepcopy(w), pickle.loads(pickle.dumps(e))) if (n + len(kind)) % 2 else (pickle.loads(pickle.dumps(w)), copy.deepcopy(e))
                        w_old.update(Q(10 ** 9)); e_old.update(Q(-10 ** 9))
                        w_h, e_h = w, e
                        run.count("checkpointed-streams")
                    if kind == "feedback" and i % 3 == 2:
                        v = vals[i] = Q(fr(e.get()) if i % 2 else fr(w.mean))      # the observation EQUALS the current estimate
                        fv[i] = fr(v)
                    # fluent style on some streams: the caller chains on what update() returned (t.update(a).update(b)...) and
                    # reads the tracker it created
                    chained = (n + rep + len(kind)) % 4 == 0
                    if i == 0 or not chained:
                        w_h, e_h = w, e
                    if chained and i == 0:
                        run.count("chained-update-streams")
                    if i % 7 == 3:
                        w_r = w_h.update(value_i=v)          # documented parameter name, passed by keyword
                    else:
                        w_r = w_h.update(v)
                    wpaths.add(rec.take())
                    if i % 7 == 5:
                        e_r = e_h.update(value_i=v)
                    else:
                        e_r = e_h.update(v)
                    epaths.add(rec.take())
                    if chained:          # (a tracker whose update() returns nothing cannot be chained: the caller would not)
                        w_h, e_h = (w_r if w_r is not None else w_h), (e_r if e_r is not None else e_h)
                    if rnd.random() < 0.2:  # reads interleaved with updates are pure
                        _ = (w.var, w.std, w.mean, e.get())
                    w2.update(other[i]); w3.update(a * v + b * other[i])
                    e2.update(other[i]); e3.update(a * v + b * other[i])
                    rec.take()
                    m = i + 1 - reinit_at
                    s1 += fv[i]
                    s2 += fv[i] * fv[i]
                    if sparse_reads and i + 1 != n and rnd.random() > 0.2:
                        continue            # statistics are read at a few random times only
                    mean = s1 / m
                    var = s2 / m - mean * mean
                    probs = []
                    if not (fr(w.mean) == mean and fr(w.get()) == mean and fr(w()) == mean):
                        probs.append(("welford-mean", f"mean {w.mean!r} != {mean}"))
                    if not (fr(w.var) == var):
                        probs.append(("welford-variance", f"var {w.var!r} != population variance {var}"))
                    sd = w.std
                    if not (abs(float(sd) - math.sqrt(var)) <= 1e-12 * max(1e-300, math.sqrt(var))):
                        probs.append(("welford-std", f"std {sd!r} != sqrt(var) {math.sqrt(var)!r}"))
                    if w.N != m or e.N != m:
                        probs.append(("update-count", f"N={w.N}/{e.N} after {m} updates"))
                    if not (min(fv[reinit_at:i + 1]) <= fr(w.mean) <= max(fv[reinit_at:i + 1])):
                        probs.append(("welford-range", "mean outside [min,max]"))
                    run.ok(5, kind="welford")
                    if i % full_every == 0 or i + 1 == n:
                        es = Fraction(0)
                        for jx in range(m):
                            es += fa * (1 - fa) ** (m - 1 - jx) * fv[reinit_at + jx]
                        if not (fr(e.get()) == es and fr(e()) == es):
                            probs.append(("smoothing-closed-form", f"smoothed {e.get()!r} != {es}"))
                        lo, hi = min([Fraction(0)] + fv[reinit_at:i + 1]), max([Fraction(0)] + fv[reinit_at:i + 1])
                        if not (lo <= fr(e.get()) <= hi):
                            probs.append(("smoothing-hull", "smoothed value outside hull of {0} and inputs"))
                        if not (fr(w3.mean) == fr(a) * fr(w.mean) + fr(b) * fr(w2.mean)):
                            probs.append(("welford-linearity", "T(au+bw) != aT(u)+bT(w)"))
                        if not (fr(e3.get()) == fr(a) * fr(e.get()) + fr(b) * fr(e2.get())):
                            probs.append(("smoothing-linearity", "T(au+bw) != aT(u)+bT(w)"))
                        run.ok(4, kind="smoothing+linearity")
                    for mech, msg in probs:
                        run.violation(mech, f"{tag} after update {m}: {msg}", {"pattern": kind, "values": vals[:m], "alpha": alpha})
                    if probs:
                        bad += 1
                        break
                if len(set(fv)) >= 3:
                    run.nontriv(("c10", kind, n, rep, run.shard[0], repr(alpha)))
    # ---- LONG streams on ONE tracker object (counter thresholds anywhere: 2^12, 2^15, 2^16, 10^4, ...): exact Welford
    # statistics from running sums, smoothing against the closed form truncated where (1-alpha)^M < 2^-80
    long_n = (9000 + rnd.randrange(3000)) if not thorough else (70000 + rnd.randrange(70000))
    for rep in range(2 if not thorough else 1):
        w, wf = WelfordTracker(), WelfordTracker()
        ea = rnd.choice([0.05, 0.25, 0.5])
        e = ExponentialSmoothingTracker(ea)
        upd_w, upd_wf, upd_e = (w.update, wf.update, e.update) if rep == 0 else (None, None, None)   # hoisted bound methods
        s1 = s2 = 0
        fvals = []
        checks = set()
        for kk in range(1, 18):
            checks.update((2 ** kk - 1, 2 ** kk, 2 ** kk + 1))
        checks.update(range(1000, long_n, 1000))
        checks.update(c + 1 for c in range(1000, long_n, 1000))
        checks.add(long_n)
        trend = rnd.choice([0, 1])
        for m in range(1, long_n + 1):
            iv = rnd.randrange(-4000, 4000) + trend * m          # integer-valued rationals: exact sums stay cheap
            fv_ = iv / 8.0
            if upd_w:
                upd_w(Q(iv)); upd_wf(fv_); upd_e(fv_)
            else:
                w.update(Q(iv)); wf.update(fv_); e.update(fv_)
            s1 += iv
            s2 += iv * iv
            fvals.append(fv_)
            if m in checks or rnd.random() < 0.002:
                mean, var = Fraction(s1, m), Fraction(s2, m) - Fraction(s1, m) ** 2
                probs = []
                if not (fr(w.mean) == mean and fr(w.get()) == mean):
                    probs.append(("welford-mean", f"mean {w.mean!r} != {mean}"))
                if not (fr(w.var) == var):
                    probs.append(("welford-variance", f"var {w.var!r} != population variance {var}"))
                if w.N != m or e.N != m or wf.N != m:
                    probs.append(("update-count", f"N={w.N}/{wf.N}/{e.N} after {m} updates"))
                fmean, fvar = float(mean) / 8.0, float(var) / 64.0
                scale = 500.0 + trend * m / 8.0
                if not (abs(float(wf.mean) - fmean) <= 1e-9 * scale and abs(float(wf.var) - fvar) <= 1e-9 * max(1.0, fvar)):
                    probs.append(("welford-float-long", f"float mean/var {wf.mean!r}/{wf.var!r} vs exact {fmean!r}/{fvar!r}"))
                M = min(m, int(80 * math.log(2) / -math.log(1 - ea)) + 2)
                es = math.fsum(ea * (1 - ea) ** j * fvals[m - 1 - j] for j in range(M))
                if not (abs(float(e.get()) - es) <= 1e-9 * scale):
                    probs.append(("smoothing-closed-form", f"smoothed {e.get()!r} != {es!r} (alpha={ea})"))
                run.ok(6, kind="long-stream")
                for mech, msg in probs:
                    run.violation(mech, f"long stream (one tracker object, trend={trend}) after update {m}: {msg}",
                                  {"pattern": "long-stream", "length": m, "alpha": ea, "trend": trend})
                if probs:
                    break
        run.count("long-stream-updates", long_n)
        run.nontriv(("c10-long", rep, run.shard[0]))
    # ---- several smoothing trackers with DIFFERENT alphas alive side by side, the later ones constructed while the first is in
    # use (and trackers of the other class in between): each keeps its own closed form
    for rep in range(6 if not thorough else 30):
        als = [Q(rnd.randrange(1, 1000), 1000) for _ in range(3)] if rep % 2 == 0 else [rnd.choice([0.5, 0.25, 0.125, 0.75]) for _ in range(3)]
        trs, hist = [ExponentialSmoothingTracker(als[0])], [[]]
        n = rnd.randrange(6, 30)
        for i in range(n):
            if i in (2, 4):
                WelfordTracker().update(Q(1))
                trs.append(ExponentialSmoothingTracker(als[len(trs)]))
                hist.append([])
            for j, tr in enumerate(trs):
                v = Q(rnd.randrange(-50, 50), 4)
                tr.update(v)
                hist[j].append(v)
            for j, tr in enumerate(trs):
                fa = fr(als[j])
                m = len(hist[j])
                es = sum((fa * (1 - fa) ** (m - 1 - jx) * fr(hist[j][jx]) for jx in range(m)), Fraction(0))
                run.ok(kind="side-by-side-alphas")
                if not (fr(tr.get()) == es and tr.N == m):
                    run.violation("smoothing-closed-form", f"tracker #{j} (alpha={als[j]!r}) of {len(trs)} trackers with alphas {als[:len(trs)]!r} alive side by side: "
                                                           f"after {m} updates {tr.get()!r} != {es} (N={tr.N})", {"alphas": als, "pattern": "side-by-side", "updates": m})
                    break
        run.nontriv(("c10-side", rep, run.shard[0]))
    # ---- the INDUCTIVE STEP from an injected state (the statement's quantifier: "symbolic state, value and alpha executed through
    # the shipped update code"): state and rate are written through the public attributes (restoring a saved tracker, warm starts,
    # a re-tuned rate), then update() runs; the next state must be the Welford / smoothing step applied to THAT state.  An
    # implementation whose attributes cannot be assigned is not judged here (counted, not a verdict).
    for rep in range(120 if not thorough else 1500):
        N0 = rnd.choice([0, 1, 2, 7, 255, 256, rnd.randrange(1, 5000)])
        mean0 = Q(rnd.randrange(-500, 500), rnd.choice([1, 3, 8]))
        m2_0 = Q(rnd.randrange(0, 90000), rnd.choice([1, 7])) if N0 else Q(0)
        if N0 == 0:
            mean0 = Q(0)
        v = Q(rnd.randrange(-900, 900), rnd.choice([1, 4, 9]))
        w = WelfordTracker()
        order = rnd.choice([("N", "tracked_value", "sum_squares"), ("sum_squares", "N", "tracked_value"), ("tracked_value", "sum_squares", "N")])
        state = {"N": N0, "tracked_value": mean0, "sum_squares": m2_0}
        try:
            for attr in order:
                setattr(w, attr, state[attr])
        except AttributeError:
            run.count("state-injection-not-supported")
            continue
        replay = {"pattern": "injected-state", "tracker": "welford", "state": {k_: repr(v_) for k_, v_ in state.items()}, "assignment_order": order, "value": repr(v)}
        try:
            w.update(v)
        except Exception as ex:
            run.violation("update-raises", f"Welford update from the injected state {state!r} raised {type(ex).__name__}: {ex}", replay)
            break
        n1 = N0 + 1
        mean1 = fr(mean0) + (fr(v) - fr(mean0)) / n1
        m2_1 = fr(m2_0) + (fr(v) - fr(mean0)) * (fr(v) - mean1)
        run.ok(kind="inductive-step")
        if not (w.N == n1 and fr(w.mean) == mean1 and fr(w.var) == m2_1 / n1):
            run.violation("welford-step", f"Welford step from state (N, mean, M2) = ({N0}, {mean0}, {m2_0}) (assigned in the order {order}) with value {v}: "
                                          f"N={w.N} mean={w.mean!r} var={w.var!r}, expected N={n1} mean={mean1} var={m2_1 / n1}", replay)
            break
        # smoothing: rate re-assigned before / in the middle of a stream, state injected
        a0, a1 = Q(rnd.randrange(0, 1001), 1000), Q(rnd.randrange(0, 1001), 1000)
        e = ExponentialSmoothingTracker(a0)
        vals_ = [Q(rnd.randrange(-50, 50), 4) for _ in range(rnd.randrange(0, 6))]
        s_ = Fraction(0)
        for vv in vals_:
            e.update(vv)
            s_ = (1 - fr(a0)) * s_ + fr(a0) * fr(vv)
        try:
            e.alpha = a1
            if rep % 2:
                s_ = fr(mean0)
                e.tracked_value = mean0
        except AttributeError:
            run.count("state-injection-not-supported")
            continue
        tail_ = [Q(rnd.randrange(-50, 50), 4) for _ in range(rnd.randrange(1, 5))]
        for vv in tail_:
            e.update(vv)
            s_ = (1 - fr(a1)) * s_ + fr(a1) * fr(vv)
        run.ok(kind="inductive-step")
        if not (fr(e.get()) == s_):
            run.violation("smoothing-step", f"smoothing tracker built with alpha={a0}, fed {len(vals_)} values, then alpha re-assigned to {a1}"
                                            f"{' and the value set to ' + str(mean0) if rep % 2 else ''}, fed {len(tail_)} values: {e.get()!r}, the recursion "
                                            f"t <- (1-alpha) t + alpha v with the rate in force gives {s_}",
                          {"pattern": "injected-state", "tracker": "smoothing", "alpha0": repr(a0), "alpha1": repr(a1), "head": [repr(x_) for x_ in vals_], "tail": [repr(x_) for x_ in tail_]})
            break
    run.nontriv(("c10-inductive-step", run.shard[0]))
    # ---- float / NumPy scalar inputs against the exact result
    def mk(typ, rnd_):
        if typ in ("uint8",):
            return np.uint8(rnd_.randrange(0, 256))
        if typ == "int8":
            return np.int8(rnd_.randrange(-128, 128))
        if typ == "int32":
            return np.int32(rnd_.randrange(-2 ** 30, 2 ** 30))
        if typ == "bool_":
            return np.bool_(rnd_.random() < .5)
        if typ == "pybool":
            return rnd_.random() < .5
        if typ == "0d-float":
            return np.array(rnd_.uniform(-50, 50))
        if typ == "0d-int":
            return np.array(rnd_.randrange(-500, 500))
        if typ in (np.int64, int):
            return typ(rnd_.randrange(-10 ** 6, 10 ** 6))
        return typ(rnd_.uniform(-1, 1) * 10 ** rnd_.choice([-3, 0, 4]))
    for typ in (float, np.float64, np.float32, np.int64, int, "uint8", "int8", "int32", "bool_", "pybool", "0d-float", "0d-int", "reused-0d-buffer"):
        tname = typ if isinstance(typ, str) else typ.__name__
        for n in (1, 2, 7, 50, 256):
            for rep in range(reps):
                if typ == "reused-0d-buffer":        # the caller reuses ONE 0-d array as a buffer: trackers must take the value, not alias it
                    buf = np.array(0.0)
                    raw = [rnd.uniform(-50, 50) for _ in range(n)]
                    vals = None
                else:
                    vals = [mk(typ, rnd) for _ in range(n)]
                    raw = [float(v) for v in vals]
                alpha = rnd.choice([0.001, 1 / 3, 0.5, 1.0, rnd.random()])
                w, e = WelfordTracker(), ExponentialSmoothingTracker(alpha)
                try:
                    for i in range(n):
                        if vals is None:
                            buf[...] = raw[i]
                            v = buf
                        else:
                            v = vals[i]
                        w.update(v)
                        wpaths.add(rec.take())
                        e.update(v)
                        epaths.add(rec.take())
                except Exception as ex:
                    run.ok(kind="float-types")
                    run.violation("update-raises", f"{tname} n={n}: update raised {type(ex).__name__}: {ex}", {"type": tname, "values": raw[:10]})
                    continue
                fv = [Fraction(x) for x in raw]
                mean = sum(fv) / n
                var = sum((x - mean) ** 2 for x in fv) / n
                es = sum(Fraction(alpha) * (1 - Fraction(alpha)) ** (n - 1 - j) * fv[j] for j in range(n))
                eps = float(np.finfo(np.float32).eps) if typ is np.float32 else 2.2e-16
                mx = max(abs(float(x)) for x in fv) or 1.0
                tol = 16 * (n + 4) * eps * mx
                run.ok(3, kind="float-types")
                rp = {"values": raw[:20], "type": tname, "alpha": alpha}
                if vals is not None and [float(v) for v in vals] != raw:
                    run.violation("input-modified", f"{tname} n={n}: the caller's input objects were modified by update", rp)
                if not (abs(float(w.mean) - float(mean)) <= tol and w.N == n and e.N == n):
                    run.violation("welford-mean", f"{tname} n={n}: mean {w.mean!r} vs exact {float(mean)!r} (N={w.N}/{e.N})", rp)
                if not (abs(float(w.var) - float(var)) <= 64 * (n + 4) * eps * mx * mx and float(w.var) >= 0):
                    run.violation("welford-variance", f"{tname} n={n}: var {w.var!r} vs exact {float(var)!r}", rp)
                if not (abs(float(e.get()) - float(es)) <= tol):
                    run.violation("smoothing-closed-form", f"{tname} n={n} alpha={alpha}: {e.get()!r} vs exact {float(es)!r}", rp)
                run.nontriv(("c10f", tname, n, rep))
    # array-valued streams: the statistics are element-wise, the caller's arrays stay untouched
    for shape in ((1,), (3,)):
        for n in (2, 5, 40):
            vals = [np.array([rnd.uniform(-9, 9) for _ in range(shape[0])]) for _ in range(n)]
            keep = [v.copy() for v in vals]
            alpha = rnd.choice([0.25, 0.5, 0.9])
            w, e = WelfordTracker(), ExponentialSmoothingTracker(alpha)
            try:
                for v in vals:
                    w.update(v)
                    _ = w.var
                    e.update(v)
            except Exception as ex:
                run.ok(kind="array-stream")
                run.violation("update-raises", f"array stream shape {shape} n={n}: {type(ex).__name__}: {ex}", {"shape": shape, "n": n})
                continue
            arr = np.array(keep)
            run.ok(3, kind="array-stream")
            rp = {"shape": shape, "n": n, "alpha": alpha, "values": [v.tolist() for v in keep[:6]]}
            es = sum(alpha * (1 - alpha) ** (n - 1 - j) * keep[j] for j in range(n))
            if not np.allclose(np.asarray(w.mean, dtype=float), arr.mean(axis=0), rtol=1e-12, atol=1e-12) or w.N != n:
                run.violation("welford-mean", f"array stream shape {shape} n={n}: mean {w.mean!r} vs {arr.mean(axis=0)!r}", rp)
            if not np.allclose(np.asarray(w.var, dtype=float), arr.var(axis=0), rtol=1e-10, atol=1e-12):
                run.violation("welford-variance", f"array stream shape {shape} n={n}: var {w.var!r} vs {arr.var(axis=0)!r}", rp)
            if not np.allclose(np.asarray(e.get(), dtype=float), es, rtol=1e-12, atol=1e-12):
                run.violation("smoothing-closed-form", f"array stream shape {shape} n={n}: {e.get()!r} vs {es!r}", rp)
            if any(not np.array_equal(a, b) for a, b in zip(vals, keep)):
                run.violation("input-modified", f"array stream shape {shape} n={n}: the caller's arrays were modified", rp)
            run.nontriv(("c10arr", shape, n))
    rec.close()
    run.notes["welford_update_line_paths"] = sorted(map(list, wpaths))
    run.notes["smoothing_update_line_paths"] = sorted(map(list, epaths))
    for pth in wpaths:
        run.see("welford-update-line-path", pth)
    for pth in epaths:
        run.see("smoothing-update-line-path", pth)
