"""C11 - SlidingWindowTracker reports mean / var / std of exactly the last min(n,k) values."""
import math
import random
from fractions import Fraction

import numpy as np

SHARDS = {"quick": 1, "thorough": 8}


def gen(rnd, n, kind):
    if kind == "ramp":
        return [float(i + 1) for i in range(n)]
    if kind == "ints":
        return [rnd.randrange(-1000, 1000) for _ in range(n)]
    if kind == "uniform":
        return [rnd.uniform(-5, 5) for _ in range(n)]
    if kind == "offset":
        return [1e6 + rnd.random() for _ in range(n)]
    if kind == "np64":
        return [np.float64(rnd.gauss(0, 3)) for _ in range(n)]
    if kind == "npint":
        return [np.int64(rnd.randrange(-50, 50)) for _ in range(n)]
    if kind == "const":
        return [2.5] * n
    if kind == "spike":
        return [0.0 if rnd.random() < .8 else rnd.choice([1e3, -1e3]) for _ in range(n)]
    if kind == "npsmallint":     # elements of uint8 / int16 / int32 arrays: sums that overflow if the window keeps their type
        t = rnd.choice([np.uint8, np.int16, np.int32])
        hi = {np.uint8: 255, np.int16: 32767, np.int32: 2 ** 31 - 1}[t]
        return [t(rnd.randrange(hi // 2, hi)) for _ in range(n)]
    if kind == "npbool":         # NumPy booleans (comparison results) and Python bools
        return [rnd.choice([np.bool_(rnd.random() < .5), rnd.random() < .5]) for _ in range(n)]
    if kind == "arr0d":          # 0-d arrays (np.asarray(x), elements of reductions), zeros included
        return [np.asarray(rnd.choice([0.0, rnd.uniform(-5, 5)])) for _ in range(n)]
    if kind == "zeros-mixed":    # exact zeros of several types between non-zero values
        return [rnd.choice([0, 0.0, False, np.float64(0), -0.0]) if rnd.random() < 0.4 else rnd.uniform(-5, 5) for _ in range(n)]
    if kind == "outlier":        # values of order one with rare huge (finite) outliers that later leave the window
        return [rnd.choice([1e17, -1e15, 1e13]) if rnd.random() < 0.08 else rnd.uniform(0.5, 2.0) for _ in range(n)]
    raise ValueError(kind)


KINDS = ["ramp", "ints", "uniform", "offset", "np64", "npint", "const", "spike", "outlier", "npsmallint", "npbool", "arr0d", "zeros-mixed"]


def main(run):
    run.rule = ("window sizes k in {1,2,3,4,5,8,13,64} (thorough also 100, 257), streams of length up to 5k+3 in 9 value "
                "patterns / numeric types; after EVERY update get(), mean, var, std are compared with the exact statistics "
                "(rational arithmetic) of values[-min(n,k):], tolerance 1e-12*scale; construction on the interpreter's NumPy is "
                "part of the monitored behaviour; window sizes given as NumPy integers (int8..intp) with streams longer than the type's range, one tracker fed 7e4 (thorough 3e5) values, bound update methods taken early, SlidingWindowTracker as base of a MultiValueTracker with late keys; evaluations = comparisons; non-trivial = prefixes with n > k (window "
                "has slid) and >= 2 distinct values in the window, distinct by (k, pattern, draw, n)")
    run.assumptions = ["no NaN values are supplied (the statement speaks of the values supplied; NaN is the tracker's own padding)"]
    try:
        from ixai.utils.tracker import SlidingWindowTracker
        SlidingWindowTracker(3)
    except Exception as ex:
        run.ok(kind="construct")
        run.nontriv("construct-a"); run.nontriv("construct-b")
        run.sample({"k": 3, "numpy": np.__version__, "constructor_raised": repr(ex)})
        run.violation("construct", f"SlidingWindowTracker(3) raised {type(ex).__name__}: {ex} on NumPy {np.__version__}",
                      {"k": 3, "numpy": np.__version__})
        return
    run.require("ixai/utils/tracker/sliding_window.py:SlidingWindowTracker.update",
                "ixai/utils/tracker/sliding_window.py:SlidingWindowTracker.var")
    rnd = random.Random(run.shard_seed)
    # two trackers of the same size fed alternately with different streams must not influence each other
    for k in (1, 2, 5, 8):
        t1, t2 = SlidingWindowTracker(k), SlidingWindowTracker(k)
        v1, v2 = [], []
        for i in range(4 * k + 2):
            a, b = rnd.uniform(0, 1), rnd.uniform(100, 101)
            t1.update(a); v1.append(a)
            t2.update(b); v2.append(b)
            run.ok(2, kind="interleaved-twins")
            for tr, vs, nm in ((t1, v1, "first"), (t2, v2, "second")):
                w = vs[-k:]
                if abs(tr.mean - sum(w) / len(w)) > 1e-9 * 101:
                    run.violation("window-mean", f"k={k}: {nm} of two interleaved trackers reports mean {tr.mean!r}, its own last values give {sum(w) / len(w)!r}",
                                  {"k": k, "interleaved": True, "values": vs})
    ks = [1, 2, 3, 4, 5, 8, 13, 64] + ([100, 257] if run.tier == "thorough" else [])
    reps = 3 if run.tier == "quick" else 6
    for k in ks:
        for kind in KINDS:
            for rep in range(reps):
                n = 5 * k + 3
                vals = gen(rnd, n, kind)
                tr = SlidingWindowTracker(k)
                failed = False
                sched = rnd.choice(["every", "every", "sparse", "bursts"])       # WHEN the statistics are read must not matter
                for i, v in enumerate(vals):
                    if rep == 2 and i in (k - 1, 2 * k + 1):
                        # checkpoint: the stream continues on a deep copy / pickle round trip; the original is fed other values
                        import copy
                        import pickle
                        old_tr = tr
                        tr = copy.deepcopy(tr) if i == k - 1 else pickle.loads(pickle.dumps(tr))
                        old_tr.update(1e9)
                        tr_h = tr
                    if rep == 1 and i in (1, k, 2 * k + 2):
                        # HISTORY: a number the window cannot hold is rejected (the update raises), the caller catches the error and
                        # carries on: the window still holds the last min(n, k) ACCEPTED values.  (An implementation that accepts
                        # the value instead is not judged on it: the stream is abandoned.)
                        try:
                            tr.update(rnd.choice([10 ** 400, -10 ** 400]))      # (a Python int, too large for any float)
                            break
                        except Exception:
                            run.count("rejected-update-histories")
                    # fluent style on some streams: the caller chains on what update() returned and reads the tracker it created
                    if i == 0 or not (rep == 0 and k % 2 == 0):
                        tr_h = tr
                    if (i + rep) % 3 == 1:
                        tr_r = tr_h.update(value_i=v)        # the documented parameter name, passed by keyword
                    else:
                        tr_r = tr_h.update(v)
                    if rep == 0 and k % 2 == 0 and tr_r is not None:
                        tr_h = tr_r
                    m = i + 1
                    if m != n and ((sched == "sparse" and rnd.random() > 0.15) or (sched == "bursts" and (m // (k + 1)) % 3 != 0)):
                        continue
                    win = [Fraction(float(x)) for x in vals[max(0, m - k):m]]
                    mean = sum(win) / len(win)
                    var = sum((x - mean) ** 2 for x in win) / len(win)
                    scale = max(1.0, max(abs(float(x)) for x in win))
                    try:
                        obs = {"get": tr.get(), "call": tr(), "mean": tr.mean, "var": tr.var, "std": tr.std}
                    except Exception as ex:
                        failed = True
                        run.violation("window-mean", f"k={k} {kind} after {m} updates: reading the statistics raised {type(ex).__name__}: {ex}",
                                      {"k": k, "values": vals[:m], "observable": "read"})
                        break
                    exp = {"get": float(mean), "call": float(mean), "mean": float(mean), "var": float(var),
                           "std": math.sqrt(float(var))}
                    tol = {"get": 1e-12 * scale, "call": 1e-12 * scale, "mean": 1e-12 * scale,
                           "var": 1e-11 * scale * scale, "std": 1e-6 * scale if float(var) < 1e-20 * scale * scale else 1e-10 * scale}
                    run.ok(5, kind=f"k={k}")
                    for key in exp:
                        o = obs[key]
                        if not (isinstance(o, (int, float, np.floating)) and abs(float(o) - exp[key]) <= tol[key]):
                            failed = True
                            run.violation(f"window-{key if key in ('var', 'std') else 'mean'}",
                                          f"k={k} {kind} after {m} updates: {key}={o!r}, last min(n,k) values give {exp[key]!r}",
                                          {"k": k, "values": vals[:m], "observable": key})
                    if failed:
                        break
                    if m > k and len(set(win)) >= 2:
                        run.nontriv(("c11", k, kind, rep, m, run.shard[0]))
                if len(run.samples) < 3 and k in (3, 5) and kind == "ramp" and rep == 0:
                    run.sample({"k": k, "values": vals, "final_mean": tr.mean, "final_var": tr.var})
    # ---- window sizes given as NumPy integers of every width, streams LONGER than the width's range (update counters
    # combined with k must not inherit k's dtype), one long stream on a plain int k, bound method taken before the first update
    def window_stats(vals, m, k):
        win = vals[max(0, m - k):m]
        mean = math.fsum(win) / len(win)
        var = math.fsum((x - mean) ** 2 for x in win) / len(win)
        return mean, var

    specs = [(np.int8(5), 300), (np.int8(100), 450), (np.uint8(3), 700), (np.uint8(200), 900), (np.int16(7), 33500),
             (np.uint16(4), 66500 if run.tier == "thorough" else 1200), (np.int32(6), 500), (np.int64(9), 500), (np.intp(2), 300),
             (7, 70000 if run.tier == "quick" else 300000), (1, 5000), (2, 5000)]
    for si, (k, n) in enumerate(specs):
        if si % run.shard[1] != run.shard[0] % len(specs) and run.shard[1] > 1:
            continue
        kname = type(k).__name__
        try:
            tr = SlidingWindowTracker(k)
        except Exception as ex:
            run.ok(kind="numpy-k")
            run.violation("construct", f"SlidingWindowTracker({kname}({int(k)})) raised {type(ex).__name__}: {ex}", {"k": int(k), "k_type": kname})
            continue
        upd = tr.update if si % 2 == 0 else None
        vals = []
        checks = {n}
        for j in range(1, 20):
            checks.update((2 ** j - 1, 2 ** j, 2 ** j + 1))
        ki = int(k)
        trend = si % 3 == 0
        for m in range(1, n + 1):
            v = rnd.uniform(-3, 3) + (m * 1e-3 if trend else 0.0)
            vals.append(v)
            try:
                if upd is not None:
                    upd(v)
                else:
                    tr.update(v)
            except Exception as ex:
                run.ok(kind="numpy-k")
                run.violation("update-raises", f"k={kname}({ki}): update #{m} raised {type(ex).__name__}: {ex}", {"k": ki, "k_type": kname, "updates": m})
                break
            if m in checks or m % ki == 1 and rnd.random() < 0.02 or rnd.random() < 0.003:
                mean, var = window_stats(vals, m, ki)
                scale = max(1.0, abs(mean))
                run.ok(3, kind="numpy-k" if not isinstance(k, int) else "long-stream")
                got = (float(tr.mean), float(tr.var), float(tr.std))
                if not (abs(got[0] - mean) <= 1e-11 * scale and abs(got[1] - var) <= 1e-10 * scale * scale
                        and abs(got[2] - math.sqrt(var)) <= 1e-6 * scale):
                    run.violation("window-mean" if abs(got[0] - mean) > 1e-11 * scale else "window-var",
                                  f"k={kname}({ki}) after {m} updates on one tracker: mean/var/std {got!r}, last min(n,k) values give "
                                  f"{(mean, var, math.sqrt(var))!r}", {"k": ki, "k_type": kname, "updates": m, "last_values": vals[-ki - 2:]})
                    break
        run.nontriv(("c11-k-type", kname, ki))
    # ---- a few thousand updates on one tracker, statistics read after EVERY update (rare single wrong reads, e.g. right after an
    # internal compaction / wrap every few hundred updates)
    for k in (1, 3, 7, 100):
        if k % run.shard[1] != run.shard[0] % run.shard[1] and run.shard[1] > 1:
            continue
        tr = SlidingWindowTracker(k)
        vals = []
        n_dense = 2600 if run.tier == "quick" else 12000
        for m in range(1, n_dense + 1):
            v = rnd.gauss(0, 2) + (m % 13)
            vals.append(v)
            tr.update(v)
            win = vals[-k:]
            mean = math.fsum(win) / len(win)
            gm = tr.mean
            run.ok(kind="dense-reads")
            if not (isinstance(gm, (float, np.floating)) and abs(float(gm) - mean) <= 1e-11 * max(1.0, abs(mean))):
                run.violation("window-mean", f"k={k}: after {m} updates on one tracker (read after every update) mean={gm!r}, the last min(n,k) values give {mean!r}",
                              {"k": k, "updates": m, "last_values": vals[-k - 2:]})
                break
            if m % 97 == 0:
                var = math.fsum((x_ - mean) ** 2 for x_ in win) / len(win)
                if not abs(float(tr.var) - var) <= 1e-10 * max(1.0, var):
                    run.violation("window-var", f"k={k}: after {m} updates var={tr.var!r}, the window gives {var!r}", {"k": k, "updates": m})
                    break
        run.nontriv(("c11-dense", k))
    # ---- EVERY window size 1..130 (thorough ..400) at EVERY fill count 1..k and a few counts beyond: thin slices in (k, n)
    kmax = 130 if run.tier == "quick" else 400
    for k in range(1 + run.shard[0], kmax + 1, run.shard[1]):
        tr = SlidingWindowTracker(k)
        vals = []
        bad = None
        for m in range(1, k + 4):
            v = float((m * 37) % 11) + m / 7.0
            vals.append(v)
            tr.update(v)
            mean, var = window_stats(vals, m, k)
            run.ok(kind="k-n-sweep")
            gm, gv = tr.mean, tr.var
            if not (isinstance(gm, (float, np.floating)) and abs(float(gm) - mean) <= 1e-11 * max(1.0, abs(mean)) and abs(float(gv) - var) <= 1e-10 * max(1.0, var)):
                bad = (m, gm, gv, mean, var)
                break
        if bad:
            run.violation("window-mean" if not abs(float(bad[1]) - bad[3]) <= 1e-11 * max(1.0, abs(bad[3])) else "window-var",
                          f"k={k} after {bad[0]} updates: mean/var {bad[1]!r}/{bad[2]!r}, last min(n,k) values give {bad[3]!r}/{bad[4]!r}",
                          {"k": k, "updates": bad[0], "values": vals})
        run.nontriv(("c11-kn", k))
    # ---- SlidingWindowTracker as the base of a MultiValueTracker: keys that appear late get their OWN empty window
    from ixai.utils.tracker import MultiValueTracker
    for rep in range(30 if run.tier == "quick" else 120):
        k = rnd.choice([1, 2, 3, 4, 6])
        mt = MultiValueTracker(SlidingWindowTracker(k))
        keys = ["a", "b", "c", "d"]
        per = {}
        hist = []
        for t in range(rnd.randrange(3, 5 * k + 6)):
            avail = keys[:min(4, 1 + t // rnd.choice([1, 2, 3]))]
            upd_ = {kk: rnd.uniform(1, 5) for kk in avail if rnd.random() < 0.75}
            hist.append(dict(upd_))
            mt.update(dict(upd_))
            for kk in upd_:
                per.setdefault(kk, [])
            for kk in per:
                per[kk].append(upd_.get(kk, 0.0))
            got = mt.get()
            run.ok(kind="multi-value-base")
            bad = set(got) != set(per)
            for kk, vs in per.items():
                w = vs[-k:]
                if not bad and not (abs(float(got[kk]) - math.fsum(w) / len(w)) <= 1e-12 * 5):
                    bad = True
            if bad:
                run.violation("window-mean", f"MultiValueTracker(SlidingWindowTracker({k})) after {t + 1} updates reports {got!r}; per-key windows since "
                              f"first appearance (0 for omitted) give { {kk: math.fsum(vs[-k:]) / len(vs[-k:]) for kk, vs in per.items()} !r}",
                              {"k": k, "history": hist, "multi_value_base": True})
                break
        run.nontriv(("c11-multi", rep, run.shard[0]))
