"""C11 - SlidingWindowTracker reports mean / var / std of exactly the last min(n,k) values."""
import math
import random
from fractions import Fraction

import numpy as np

SHARDS = {"quick": 1, "thorough": 8}


def gen(rnd, n, kind):
    if kind == "ramp":
        return [float(i + 1) for i in range(n)]
    if kind == "ints":
        return [rnd.randrange(-1000, 1000) for _ in range(n)]
    if kind == "uniform":
        return [rnd.uniform(-5, 5) for _ in range(n)]
    if kind == "offset":
        return [1e6 + rnd.random() for _ in range(n)]
    if kind == "np64":
        return [np.float64(rnd.gauss(0, 3)) for _ in range(n)]
    if kind == "npint":
        return [np.int64(rnd.randrange(-50, 50)) for _ in range(n)]
    if kind == "const":
        return [2.5] * n
    if kind == "spike":
        return [0.0 if rnd.random() < .8 else rnd.choice([1e3, -1e3]) for _ in range(n)]
    if kind == "npsmallint":     # elements of uint8 / int16 / int32 arrays: sums that overflow if the window keeps their type
        t = rnd.choice([np.uint8, np.int16, np.int32])
        hi = {np.uint8: 255, np.int16: 32767, np.int32: 2 ** 31 - 1}[t]
        return [t(rnd.randrange(hi // 2, hi)) for _ in range(n)]
    if kind == "outlier":        # values of order one with rare huge (finite) outliers that later leave the window
        return [rnd.choice([1e17, -1e15, 1e13]) if rnd.random() < 0.08 else rnd.uniform(0.5, 2.0) for _ in range(n)]
    raise ValueError(kind)


KINDS = ["ramp", "ints", "uniform", "offset", "np64", "npint", "const", "spike", "outlier", "npsmallint"]


def main(run):
    run.rule = ("window sizes k in {1,2,3,4,5,8,13,64} (thorough also 100, 257), streams of length up to 5k+3 in 9 value "
                "patterns / numeric types; after EVERY update get(), mean, var, std are compared with the exact statistics "
                "(rational arithmetic) of values[-min(n,k):], tolerance 1e-12*scale; construction on the interpreter's NumPy is "
                "part of the monitored behaviour; evaluations = comparisons; non-trivial = prefixes with n > k (window "
                "has slid) and >= 2 distinct values in the window, distinct by (k, pattern, draw, n)")
    run.assumptions = ["no NaN values are supplied (the statement speaks of the values supplied; NaN is the tracker's own padding)"]
    try:
        from ixai.utils.tracker import SlidingWindowTracker
        SlidingWindowTracker(3)
    except Exception as ex:
        run.ok(kind="construct")
        run.nontriv("construct-a"); run.nontriv("construct-b")
        run.sample({"k": 3, "numpy": np.__version__, "constructor_raised": repr(ex)})
        run.violation("construct", f"SlidingWindowTracker(3) raised {type(ex).__name__}: {ex} on NumPy {np.__version__}",
                      {"k": 3, "numpy": np.__version__})
        return
    run.require("ixai/utils/tracker/sliding_window.py:SlidingWindowTracker.update",
                "ixai/utils/tracker/sliding_window.py:SlidingWindowTracker.var")
    rnd = random.Random(run.shard_seed)
    # two trackers of the same size fed alternately with different streams must not influence each other
    for k in (1, 2, 5, 8):
        t1, t2 = SlidingWindowTracker(k), SlidingWindowTracker(k)
        v1, v2 = [], []
        for i in range(4 * k + 2):
            a, b = rnd.uniform(0, 1), rnd.uniform(100, 101)
            t1.update(a); v1.append(a)
            t2.update(b); v2.append(b)
            run.ok(2, kind="interleaved-twins")
            for tr, vs, nm in ((t1, v1, "first"), (t2, v2, "second")):
                w = vs[-k:]
                if abs(tr.mean - sum(w) / len(w)) > 1e-9 * 101:
                    run.violation("window-mean", f"k={k}: {nm} of two interleaved trackers reports mean {tr.mean!r}, its own last values give {sum(w) / len(w)!r}",
                                  {"k": k, "interleaved": True, "values": vs})
    ks = [1, 2, 3, 4, 5, 8, 13, 64] + ([100, 257] if run.tier == "thorough" else [])
    reps = 3 if run.tier == "quick" else 6
    for k in ks:
        for kind in KINDS:
            for rep in range(reps):
                n = 5 * k + 3
                vals = gen(rnd, n, kind)
                tr = SlidingWindowTracker(k)
                failed = False
                sched = rnd.choice(["every", "every", "sparse", "bursts"])       # WHEN the statistics are read must not matter
                for i, v in enumerate(vals):
                    tr.update(v)
                    m = i + 1
                    if m != n and ((sched == "sparse" and rnd.random() > 0.15) or (sched == "bursts" and (m // (k + 1)) % 3 != 0)):
                        continue
                    win = [Fraction(float(x)) for x in vals[max(0, m - k):m]]
                    mean = sum(win) / len(win)
                    var = sum((x - mean) ** 2 for x in win) / len(win)
                    scale = max(1.0, max(abs(float(x)) for x in win))
                    obs = {"get": tr.get(), "call": tr(), "mean": tr.mean, "var": tr.var, "std": tr.std}
                    exp = {"get": float(mean), "call": float(mean), "mean": float(mean), "var": float(var),
                           "std": math.sqrt(float(var))}
                    tol = {"get": 1e-12 * scale, "call": 1e-12 * scale, "mean": 1e-12 * scale,
                           "var": 1e-11 * scale * scale, "std": 1e-6 * scale if float(var) < 1e-20 * scale * scale else 1e-10 * scale}
                    run.ok(5, kind=f"k={k}")
                    for key in exp:
                        o = obs[key]
                        if not (isinstance(o, (int, float, np.floating)) and abs(float(o) - exp[key]) <= tol[key]):
                            failed = True
                            run.violation(f"window-{key if key in ('var', 'std') else 'mean'}",
                                          f"k={k} {kind} after {m} updates: {key}={o!r}, last min(n,k) values give {exp[key]!r}",
                                          {"k": k, "values": vals[:m], "observable": key})
                    if failed:
                        break
                    if m > k and len(set(win)) >= 2:
                        run.nontriv(("c11", k, kind, rep, m, run.shard[0]))
                if len(run.samples) < 3 and k in (3, 5) and kind == "ramp" and rep == 0:
                    run.sample({"k": k, "values": vals, "final_mean": tr.mean, "final_var": tr.var})
