"""C12 - MultiValueTracker: independent per-key statistics, zero-fill, safe normalising."""
import math
import random

import numpy as np

from ..qnum import Q, tofrac
from ..refs import RefMulti

SHARDS = {"quick": 1, "thorough": 8}
N_HIST = {"quick": 500, "thorough": 3000}


def conv(typ, v, sc=1.0):
    """v is a small integer numerator over 4; sc a power-of-two magnitude scale (exact in binary floating point)."""
    if typ == "int":
        return int(v)
    if typ == "float":
        return v / 4.0 * sc
    if typ == "np64":
        return np.float64(v / 4.0 * sc)
    if typ == "np32":
        return np.float32(v / 4.0 * sc)
    if typ == "npint":
        return np.int64(v)
    if typ == "Q":
        return Q(v, 4) * Q(sc)
    if typ == "np_u8":           # unsigned narrow integers (counts): arithmetic that wraps around if kept in that type
        return np.uint8(abs(int(v)) * 9 % 256)
    if typ == "arr0d":           # 0-dimensional arrays
        return np.array(v / 4.0 * sc)
    raise ValueError(typ)


TYPES = ["int", "float", "np64", "np32", "npint", "Q", "np_u8", "arr0d"]
KEYSETS = [["a", "b", "c", "d"], [0, 1, 2, 3], [("t", 1), ("t", 2), ("u", 1)], ["x", 7, ("k",), 2.5],
           list(range(9)), [f"label{j}" for j in range(7)], ["a", "b"]]
# unusual but legal hashable keys, mixed in one tracker (an "unknown" label None, booleans, the empty string / tuple, nested tuples,
# frozensets, infinities, big integers, NumPy integers, bytes); the first seven sets are pairwise distinct under ==, the last one
# holds keys that are EQUAL under == (1 / True / 1.0 / np.int64(1), 0 / 0.0 / False): they are ONE key, exactly as in a Python dict
# (the update dicts, the reference model and the expected key list are all plain dict / == based, so they collapse the same way)
UNUSUAL_KEYSETS = [[None, "cat", "dog"], [None, 1], ["cat", None], [True, 0, "", (), None],
                   [(), ("a",), ((1, 2), None), frozenset(), frozenset({1, 2}), (None,)],
                   [float("inf"), -float("inf"), 10 ** 30, -1, np.int64(7), 2.5, -(2 ** 63)],
                   [False, None, np.int64(3), "", (None, None), b"b", "None"],
                   ["z", None, 1, True, 1.0, np.int64(1), 0, 0.0, False]]


def samekey(a, b):
    """The dict notion of "same key" (hash first: NumPy integer keys broadcast == over tuple keys)."""
    return a is b or (hash(a) == hash(b) and bool(a == b))


def key_class(k):
    if k is None:
        return "None"
    if isinstance(k, (bool, np.bool_)):
        return "bool"
    if isinstance(k, np.generic):
        return "numpy-scalar"
    if isinstance(k, float) and math.isinf(k):
        return "inf"
    if isinstance(k, int) and abs(k) >= 2 ** 62:
        return "big-int"
    if isinstance(k, (str, tuple, frozenset, bytes)) and len(k) == 0:
        return "empty-" + type(k).__name__
    return type(k).__name__


def finite(v):
    try:
        return math.isfinite(float(v))
    except Exception:
        return True


def main(run):
    from ixai.utils.tracker import MultiValueTracker, WelfordTracker, ExponentialSmoothingTracker
    run.rule = ("random histories (length <= 60) of update dicts with changing key sets (late keys, omitted keys, empty dicts; "
                "str/int/tuple/mixed keys) x value types {int,float,np.float64,np.float32,np.int64,Q} x magnitude scales {1, 2^-40, 2^-60, 2^40} x base tracker "
                "{Welford, ExponentialSmoothing(alpha)}; about a third of the histories use unusual legal hashable keys mixed in one "
                "tracker (None, True/False, '', (), nested tuples, frozensets, +-inf, 10**30, np.int64, bytes, and keys equal under == "
                "such as 1/True/1.0 which are one key as in a dict); after every update get() is compared with an independent per-key "
                "reference (== for Q and int/Welford-free cases, tolerance otherwise), N and key persistence asserted, "
                "get_normalized() checked for sum=1 / ratio preservation / zero-sum -> all 0.0 with no NaN/inf and a silent "
                "NumPy FP-exception recorder; differential twin trackers assert independence between keys; evaluations = "
                "monitor evaluations; non-trivial = history with >= 2 keys whose key set changed, distinct by draw")
    run.assumptions = ["values are finite real numbers; keys are hashable with a reflexive == (no NaN keys); keys equal under == "
                       "(1, True, 1.0) are the same key, as in a Python dict"]
    run.require_count("unusual-key-histories", "normalized-states-with-None-key", "normalized-states-with-unusual-keys")
    run.require("ixai/utils/tracker/multi_value.py:MultiValueTracker.update",
                "ixai/utils/tracker/multi_value.py:MultiValueTracker.get_normalized")
    rnd = random.Random(run.shard_seed)
    fp_events = []
    # gradual underflow (a float32 smoothed value decaying into the subnormal range during a long absence) is ordinary float
    # behaviour with no effect beyond the tolerance; only NaN / inf producing events are evidence against "rather than NaN"
    np.seterrcall(lambda kind, flag: fp_events.append(kind) if "underflow" not in kind else None)
    for h in range(N_HIST[run.tier]):
        typ = TYPES[h % len(TYPES)]
        unusual = rnd.random() < 0.35
        keys = rnd.choice(UNUSUAL_KEYSETS if unusual else KEYSETS)
        if unusual:
            run.count("unusual-key-histories")
            if keys is UNUSUAL_KEYSETS[-1]:
                run.count("aliasing-key-histories")
        dyn = rnd.random() < 0.5
        if typ == "Q":
            alpha = rnd.choice([Q(1, 3), Q(1, 2), Q(1), Q(1, 1000)])
        else:
            alpha = rnd.choice([0.5, 0.25, 1.0, 0.125])
        mode = rnd.choice(["random", "random", "zero-sum-pairs", "all-zero", "single-key", "cancel-late", "spike"])
        sc = rnd.choice([1.0, 1.0, 2.0 ** -40, 2.0 ** -60, 2.0 ** 40]) if typ in ("float", "np64", "np32", "Q", "arr0d") else 1.0
        base = ExponentialSmoothingTracker(alpha) if dyn else WelfordTracker()
        mt, twin = MultiValueTracker(base), MultiValueTracker(base)
        mt_h = None
        mt_update = mt.update if h % 3 == 1 else None       # a bound method taken before the first update, used throughout
        base.update(conv(typ, 17, sc) if typ != "int" else 17)      # the user keeps using the base tracker object: must not matter
        ref = RefMulti(dyn, Q(alpha) if dyn else None)
        n = rnd.randrange(1, 61 if run.tier == "thorough" else 31)
        if h % 97 == 13:
            n = 400          # a few long histories (counters beyond 256)
            mode = ["random", "all-zero", "cancel-late", "zero-sum-pairs", "single-key"][(h // 97) % 5]
        if h % 97 in (40, 41):
            n = 620          # a key supplied a few times early on and then ABSENT for hundreds of updates (zero-filled all along)
            mode = "long-absence"
        seen_keys = []
        seen_index = {}
        changed = False
        hist = []
        ok_hist = True
        for t in range(n):
            if mode == "random":
                ks = [k for k in keys if rnd.random() < 0.6]
                upd = {k: rnd.randrange(-20, 21) for k in ks}
            elif mode == "long-absence":
                upd = {keys[0]: rnd.randrange(1, 21)}
                if t in (2, 5) or t == 600:
                    upd[keys[1]] = rnd.randrange(1, 21)
            elif mode == "spike":        # one huge transient value early on, ordinary magnitudes afterwards (sums must not remember the spike)
                ks = [k for k in keys if rnd.random() < 0.7] or [keys[0]]
                upd = {k: (rnd.choice([1, -1]) * 3 * 10 ** 9 if t == 1 and samekey(k, ks[0]) else rnd.randrange(1, 21)) for k in ks}
            elif mode == "zero-sum-pairs":
                v = rnd.randrange(-20, 21)
                upd = {keys[0]: v, keys[1]: -v}
            elif mode == "all-zero":
                upd = {k: 0 for k in keys[:rnd.randrange(2, len(keys) + 1)]}
            elif mode == "single-key":
                upd = {keys[0]: rnd.randrange(-20, 21)} if rnd.random() < 0.8 else {}
            else:   # cancel-late: second key appears late with values that cancel the first key's statistic
                v = rnd.randrange(1, 9)
                upd = {keys[0]: v} if t < 2 else {keys[0]: 0, keys[1]: 0}
            if h % 5 == 3 and t in (2, 7):
                # checkpoint: the history continues on a deep copy / pickle round trip; the original is fed other values
                import copy
                import pickle
                old_mt = mt
                try:
                    mt = copy.deepcopy(mt) if t == 2 else pickle.loads(pickle.dumps(mt))
                except Exception as ex:
                    run.violation("update-raises", f"hist#{h}: {'deepcopy' if t == 2 else 'pickle round trip'} of the tracker raised {type(ex).__name__}: {ex}",
                                  {"type": typ, "history": hist, "checkpoint": True})
                    break
                mt_update = None
                mt_h = None
                old_mt.update({keys[0]: conv(typ, 9, sc) if typ != "int" else 9})
            hist.append(upd)
            real = {k: conv(typ, v, sc) for k, v in upd.items()}
            ctype = rnd.choice(["dict", "dict", "OrderedDict", "defaultdict-nonzero"])
            if ctype == "OrderedDict":
                import collections
                (mt_update or mt.update)(collections.OrderedDict(real))
            elif ctype == "defaultdict-nonzero":      # a dict subclass whose __missing__ would fabricate a non-zero value
                import collections
                dd = collections.defaultdict(lambda: conv(typ, 7, sc) if typ != "int" else 7)
                dd.update(real)
                (mt_update or mt.update)(dd)
            elif h % 4 == 2 and mt_update is None:
                # fluent style: the caller chains on what update() returned and reads the tracker it created
                if t == 0 or mt_h is None:
                    mt_h = mt
                mt_r = mt_h.update(dict(real))
                mt_h = mt_r if mt_r is not None else mt_h
                if t == 0:
                    run.count("chained-update-histories")
            else:
                (mt_update or mt.update)(dict(real))
            # twin: same values for keys[0], different history for the others
            twin.update({k: (v if samekey(k, keys[0]) else conv(typ, 3, sc)) for k, v in real.items()})
            ref.add({k: Q(tofrac(v)) for k, v in real.items()})
            if set(upd) - set(seen_keys):
                changed = changed or bool(seen_keys)
            for k in upd:            # (dict membership: hash first, == only on equal hashes - NumPy keys broadcast == over tuple keys)
                seen_index.setdefault(k, k)
            seen_keys = list(seen_index)
            if mode == "long-absence" and not (t in (3, 6) or 254 <= t <= 262 or 510 <= t <= 518 or t >= 598):
                continue            # (long histories are read around the counter values 256 / 512 and at the end only: the reference re-sums the history)
            if h % 4 == 2 and t != n - 1 and rnd.random() > 0.2:
                continue            # sparse read schedule: statistics are read at a few random times only (lazy bookkeeping must not depend on reads)
            got = mt.get()
            exp = ref.get()
            tag = f"hist#{h} type={typ} base={'ES(%r)' % (alpha,) if dyn else 'Welford'} mode={mode} update {t + 1}"
            replay = {"type": typ, "dynamic": dyn, "alpha": alpha, "history": hist, "magnitude_scale": sc}
            run.ok(kind="get")
            if set(got.keys()) != set(seen_keys) or set(mt().keys()) != set(seen_keys):
                run.violation("key-set", f"{tag}: keys {sorted(map(repr, got))} expected {sorted(map(repr, seen_keys))}", replay)
                ok_hist = False
                break
            exactmode = typ == "Q"
            eps = 1.2e-7 if typ == "np32" else 2.3e-16
            for k in seen_keys:
                e, g = exp[k], got[k]
                okv = (g == e) if exactmode else abs(float(g) - float(e)) <= 64 * (t + 2) * eps * (256 if typ == "np_u8" else 21 if mode != "spike" else 3e9) * sc
                if not okv:
                    run.violation("per-key-value", f"{tag}: key {k!r} reports {g!r}, reference {e!r}", replay)
                    ok_hist = False
            if not dyn and hasattr(mt, "tracked_value") and t % 3 == 2 and typ != "np32":      # (squares of float32 inputs overflow float32: not judged)
                # "one independent copy of the base tracker per key": the per-key trackers (public attribute tracked_value) carry
                # the FULL base statistic - for Welford also the population variance of the key's zero-filled history
                for k in seen_keys:
                    vs = [tofrac(v_) for v_ in ref.keys[k].vals]
                    mu = sum(vs) / len(vs)
                    pv = sum((v_ - mu) ** 2 for v_ in vs) / len(vs)
                    try:
                        gv = mt.tracked_value[k].var
                    except Exception:
                        break
                    run.ok(kind="per-key-variance")
                    okv = (tofrac(gv) == pv) if exactmode else abs(float(gv) - float(pv)) <= 256 * (t + 2) * eps * ((256 if typ == "np_u8" else 21 if mode != "spike" else 3e9) * sc) ** 2
                    if not okv:
                        run.violation("per-key-value", f"{tag}: the tracker of key {k!r} reports variance {gv!r}, its history gives {pv!r}", replay)
                        ok_hist = False
                        break
            if mt.N != t + 1:
                run.violation("update-count", f"{tag}: N={mt.N}", replay)
                ok_hist = False
            if keys[0] in got and keys[0] in twin.get():
                run.ok(kind="independence")
                a, b = got[keys[0]], twin.get()[keys[0]]
                if not (a == b):
                    run.violation("key-independence", f"{tag}: key {keys[0]!r} reads {a!r} but {b!r} in a twin whose OTHER keys differ", replay)
                    ok_hist = False
            # ---- normalised view
            del fp_events[:]
            with np.errstate(all="call"):
                try:
                    norm = mt.get_normalized()
                except Exception as ex:
                    run.violation("normalize-raises", f"{tag}: get_normalized raised {type(ex).__name__}: {ex}", replay)
                    ok_hist = False
                    break
            run.ok(kind="normalized")
            if unusual and len(seen_keys) >= 2:
                run.count("normalized-states-with-unusual-keys")
                for kc in sorted({key_class(k) for k in seen_keys}):
                    run.count("normalized-states-with-%s-key" % kc)
            tot = sum(exp.values(), Q(0))
            # "zero sum" is a statement about the values the tracker actually holds: exact in Q mode, the float sum otherwise
            # (float means of inputs whose exact means cancel need not cancel: that is not the zero-sum case)
            fsum = None if exactmode else sum(got.values())
            zero = (tot == 0) if exactmode else (fsum == 0)
            if len(seen_keys) <= 1:
                if not all(norm[k] == got[k] for k in seen_keys) or set(norm) != set(seen_keys):
                    run.violation("normalize-single-key", f"{tag}: <=1 key must give raw values, got {norm!r}", replay)
                    ok_hist = False
            elif zero:
                run.count("zero-sum-states")
                if not all(type(v) in (int, float, np.float64, np.float32, Q, np.ndarray) and v == 0 and finite(v) for v in norm.values()) \
                        or set(norm) != set(seen_keys) or fp_events:
                    run.violation("normalize-zero-sum", f"{tag}: zero sum must give all 0.0, got {norm!r}; FP events {fp_events}", replay)
                    ok_hist = False
            elif tot != 0:
                s = sum(norm.values())
                nt = 0 if exactmode else 1e-9 if typ != "np32" else 1e-3
                # float sums that nearly cancel are ill-conditioned (relative error of the sum ~ eps * max|value| / |sum|): skip ratios
                mxv = max(abs(float(v)) for v in got.values())
                well = exactmode or abs(float(fsum)) > (1e-3 if typ == "np32" else 1e-6) * mxv
                if well:
                    run.count("nonzero-sum-states")
                    good = (s == 1) if exactmode else abs(float(s) - 1) <= nt
                    for k in seen_keys:
                        want = exp[k] / tot
                        good = good and ((norm[k] == want) if exactmode else abs(float(norm[k]) - float(want)) <= nt * max(1, abs(float(want))))
                    if not good or fp_events:
                        run.violation("normalize-ratios", f"{tag}: normalised {norm!r} (sum {s!r}) raw {got!r}; FP events {fp_events}", replay)
                        ok_hist = False
            if not ok_hist:
                break
        if len(seen_keys) >= 2 and changed:
            run.nontriv(("c12", run.shard[0], h))
        if len(run.samples) < 3 and mode in ("random", "zero-sum-pairs") and n >= 4 and h > 5:
            run.sample({"value_type": typ, "base": "ES" if dyn else "Welford", "alpha": alpha if dyn else None,
                        "history": hist[:6], "final_get": mt.get(), "final_normalized": mt.get_normalized() if ok_hist else None})
