"""C13 - a river metric used as loss is a pure, smaller-is-better function of its inputs."""
import inspect
import math
import random

import numpy as np

SHARDS = {"quick": 1, "thorough": 16}
CALLS = {"quick": 600, "thorough": 4000}


def same(a, b, tol=1e-9):
    try:
        if math.isnan(float(a)) and math.isnan(float(b)):
            return True
    except (TypeError, ValueError):
        pass
    try:
        return a == b or abs(a - b) <= tol * max(1.0, abs(a), abs(b))
    except TypeError:
        return a == b


# label alphabets a binary classification stream can legally carry (river decides "positive" by y == pos_val, so anything hashable and
# comparable is a label; each alphabet was checked to be accepted by fresh river metrics - pairs a fresh metric rejects are skipped anyway)
BIN_ALPHABETS = [("int01", [0, 1]), ("pm1", [-1, 1]), ("int12", [1, 2]), ("int02", [0, 2]), ("str-ab", ["a", "b"]), ("str-empty-x", ["", "x"]),
                 ("float01", [0.0, 1.0]), ("np-int01", [np.int64(0), np.int64(1)]), ("np-int12", [np.int32(1), np.int32(2)]),
                 ("float-pm1", [-1.0, 1.0]), ("str-yes-no", ["no", "yes"])]
MULTI_ALPHABETS = [("int-neg", [-1, 0, 1]), ("int123", [1, 2, 3]), ("float012", [0.0, 1.0, 2.0]), ("np-int012", [np.int64(0), np.int64(1), np.int64(2)]),
                   ("str-empty-xy", ["", "x", "y"]), ("bool", [False, True]), ("int02", [0, 2]), ("pm1", [-1, 1]), ("int-4", [0, 1, 2, 7])]
STRETCH = 20          # calls per stretch; even stretches keep the metric's original alphabet, odd ones walk through the lists above


class _Pred(dict):
    """A user's own dict subclass for predictions."""


def gen_pair(rnd, kind, dict_input, requires_labels, labelset):
    if kind == "reg":
        r = rnd.random()
        if r < 0.04:      # a model can emit inf / nan, a loss can overflow: still a legal (y_true, y_pred) pair
            return rnd.uniform(0.1, 5), {"output": rnd.choice([float("inf"), float("-inf"), float("nan")])}
        if r < 0.06:
            return 1e308, {"output": -1e308}
        return rnd.uniform(0.1, 5) * rnd.choice([1, 1, 10]), {"output": rnd.uniform(0.1, 5)}
    if dict_input:
        labs = labelset
        if rnd.random() < 0.5:      # predict_proba_one style: only some labels are present, the true one possibly missing
            labs = rnd.sample(labelset, rnd.randrange(1, len(labelset) + 1))
        if rnd.random() < 0.3:      # confident models: exact 0 / 1 and probabilities far below single-precision resolution
            pal = [0.0, 1.0, 1e-300, 1e-20, 1e-15, 3e-13, 1e-9, 5e-8, 1e-7, 1 - 1e-16, 1 - 1e-9, 0.5]
            return rnd.choice(labelset), {k: rnd.choice(pal) for k in labs}
        p = [rnd.random() + 1e-3 for _ in labs]
        s = sum(p)
        return rnd.choice(labelset), {k: v / s for k, v in zip(labs, p)}
    if kind == "bin":
        return rnd.choice(labelset), {"output": rnd.choice(labelset) if requires_labels else rnd.random()}
    return rnd.choice(labelset), {"output": rnd.choice(labelset)}


def main(run):
    import river.metrics as M
    from river.metrics.base import Metric, RegressionMetric, BinaryMetric
    from ixai.utils.validators import validate_loss_function
    from ixai.explainer import IncrementalPFI, IncrementalSage
    run.rule = ("every river.metrics class constructible with defaults and accepted by validate_loss_function (rejected ones listed "
                "in notes); per metric a history of type-appropriate (y_true, y_pred) calls issued through 1-3 loss wrappers and an "
                "explainer SHARING one metric object in random interleaving; the label alphabet of classification streams alternates per stretch of calls between booleans / the metric's own and wider legal codings ({-1,1}, {1,2}, {0,2}, strings incl. the empty one, floats, NumPy integers), also for metrics sharing a confusion matrix and (numeric codings) the explainer route; after every call the returned value must equal "
                "sign * (fresh metric after that single pair) (NaN-aware, 1e-9) and metric.get() its value before the first call; a "
                "confident predictions (exact 0/1, probabilities down to 1e-300); the metric handed to a static IncrementalSage with loss_bigger_is_better off / on (flag off: model_loss must be the running mean of the fresh-metric, smaller-is-better losses; flag on: the importance values must equal those of the twin without the flag on the same stream and seeds); groups of 2-3 metrics sharing one confusion matrix (cm=) each used as a loss; recording subclass of the metric observes whether scalars ('output' entry) or the whole dict reached it; "
                "evaluations = loss calls judged; non-trivial = distinct (metric, y_true, y_pred) with a non-zero loss")
    run.assumptions = ["the shared metric is touched only through the loss wrappers / explainers",
                       "fresh-metric semantics: a new instance of the same class with default arguments"]
    run.require_count("eval:explainer-route", "labels:binary-beyond-bool", "labels:multiclass-wide", "labels:shared-cm-beyond-bool",
                      "labels:explainer-route-beyond-bool")
    run.require("ixai/utils/wrappers/river.py:RiverMetricToLossFunction.__call__",
                "ixai/utils/validators/loss.py:validate_loss_function")
    rnd = random.Random(run.shard_seed)
    names = sorted(n for n in dir(M) if inspect.isclass(getattr(M, n)) and issubclass(getattr(M, n), Metric))
    sh, nsh = run.shard
    accepted, rejected = [], []
    maxdev = 0.0
    for idx, name in enumerate(names):
        cls = getattr(M, name)
        try:
            cls()
        except Exception as ex:
            rejected.append((name, "ctor:" + type(ex).__name__))
            continue
        received = []

        class Rec(cls):
            def update(self, y_true, y_pred, *a, **k):
                received.append(type(y_pred))
                return super().update(y_true, y_pred, *a, **k)
        Rec.__name__ = name
        try:
            m = Rec()
            lf = validate_loss_function(m)
        except Exception as ex:
            rejected.append((name, "validate:" + type(ex).__name__))
            continue
        accepted.append(name)
        if idx % nsh != sh:
            continue
        # which metrics are dict-based is decided HERE, not read off the library's wrapper: a metric whose fresh instance accepts a
        # single value (number or label) is a single-value metric
        dict_input = True
        for probe in ((0, 0), (1, 0.5), (True, 0.25), (True, False), ("a", "b")):
            try:
                cls().update(*probe)
                dict_input = False
                break
            except Exception:
                pass
        run.ok(kind="input-kind")
        if bool(getattr(lf, "_dict_input_metric", dict_input)) != dict_input:
            run.violation("input-routing", f"{name}: a fresh {name} accepts single values, but the loss built from it hands over "
                                           f"{'the whole dict' if not dict_input else 'a single value'}", {"metric": name})
        kind = "reg" if isinstance(m, RegressionMetric) else ("bin" if isinstance(m, BinaryMetric) else "multi")
        sign = -1.0 if getattr(m, "bigger_is_better", False) else 1.0
        requires_labels = getattr(m, "requires_labels", True)
        labelset = rnd.choice([[0, 1, 2], ["a", "b", "c"], [0, 1]])
        home_labels = [False, True] if (kind == "bin" and not dict_input) else labelset
        wide = BIN_ALPHABETS if kind == "bin" else MULTI_ALPHABETS
        wrappers = [lf] + [validate_loss_function(m) for _ in range(rnd.choice([0, 1, 2]))]
        before = m.get()
        clones = []
        shared_pred = {}            # ONE prediction dict object reused (overwritten) by the caller for a stretch of calls
        # an explainer sharing the same metric object (regression-type metrics with scalar outputs only)
        expl = None
        if kind == "reg":
            def model(xx):
                return {"output": 0.5 * xx["a"] + xx["b"]}
            try:
                cls_e = rnd.choice([IncrementalPFI, IncrementalSage])
                expl = cls_e(model, m, ["a", "b"], smoothing_alpha=0.1, n_inner_samples=2)
            except Exception as ex:
                run.other_error(f"C15:{type(ex).__name__}")
        ncalls = CALLS[run.tier] if idx % 6 != 2 else max(CALLS[run.tier], 2300)      # some histories beyond 1024 / 2048 calls
        ok = True
        for i in range(ncalls):
            # the label alphabet of the stream changes from stretch to stretch: the metric's original alphabet alternates with the wider
            # ones ({-1, 1}, {1, 2}, strings, floats, NumPy integers, ...), every metric walks through all of them
            stretch = i // STRETCH
            if kind == "reg" or stretch % 2 == 0:
                alpha_name, labels_now = None, home_labels
            else:
                alpha_name, labels_now = wide[(idx + stretch // 2) % len(wide)]
            yt, yp = gen_pair(rnd, kind, dict_input, requires_labels, labels_now)
            if rnd.random() < 0.15:        # targets taken from NumPy arrays: integer counts, booleans, float32 measurements
                if kind == "reg" and isinstance(yt, float) and math.isfinite(yt) and abs(yt) < 1e6:
                    yt = rnd.choice([np.int64(int(yt) + 1), np.float32(yt), np.float64(yt), np.int32(int(yt) + 2)])
                elif kind == "bin" and isinstance(yt, bool):
                    yt = np.bool_(yt)
            w = wrappers[0] if rnd.random() < 0.55 else rnd.choice(wrappers)     # (one wrapper takes most calls: counters inside a wrapper get past 1024)
            if i in (40, 200) and len(wrappers) < 5:
                # checkpointing: a deep copy / pickle round trip of a loss function (with its own copy of the metric) is used from now
                # on next to the originals; it must behave like them
                import copy
                import pickle
                try:
                    if i == 40:
                        clone = copy.deepcopy(w)
                    else:       # (the recording subclass is local to this harness and cannot be pickled: a plain metric of the class is used)
                        plain = validate_loss_function(cls())
                        clone = pickle.loads(pickle.dumps(plain))
                    wrappers.append(clone)
                    clones.append(clone)
                    w = clone
                except Exception as ex:
                    run.violation("loss-raises", f"{name}: {'deepcopy' if i == 40 else 'pickle round trip'} of the loss function raised {type(ex).__name__}: {ex}",
                                  {"metric": name, "call": i, "checkpoint": True})
            if rnd.random() < 0.03:
                # error path: a call the metric cannot digest (prediction None / unhashable label); the caller catches whatever
                # is raised and carries on - later values and the metric's own value must be unaffected
                bad_pred = {"output": None} if not dict_input else {None: None}
                try:
                    fresh_probe = cls()
                    fresh_probe.update(yt, bad_pred if dict_input else None)
                    digestible = True
                except Exception:
                    digestible = False
                if not digestible:
                    try:
                        w(yt, bad_pred)
                    except Exception:
                        run.count("failing-calls-survived")
                    if not same(m.get(), before):
                        # only count it against the library if a fresh metric's failing update leaves no residue either
                        probe = cls()
                        v0 = probe.get()
                        try:
                            probe.update(yt, bad_pred if dict_input else None)
                        except Exception:
                            pass
                        if same(probe.get(), v0):
                            run.violation("metric-state-changed", f"{name} call {i}: a failing call changed metric.get() from {before!r} to {m.get()!r}",
                                          {"metric": name, "call": i, "failing_call": True})
                            ok = False
                            break
                        before = m.get()     # river itself leaves a residue on a failing update: outside the wrapper's control
            if expl is not None and rnd.random() < 0.15:
                expl.explain_one({"a": rnd.random(), "b": rnd.random()}, rnd.random())
            try:       # the oracle first: a pair the metric itself rejects is outside its domain and is not issued
                fresh = cls()
                fresh.update(yt, yp if dict_input else yp["output"])
                exp = fresh.get() * sign
            except Exception:
                run.count("pairs-outside-metric-domain")
                continue
            del received[:]
            ctype = rnd.random()
            if ctype < 0.1:          # predictions handed over as dict subclasses (OrderedDict, defaultdict, a user's own class)
                import collections
                yp = collections.OrderedDict(yp)
            elif ctype < 0.2:
                import collections
                dd = collections.defaultdict(float)
                dd.update(yp)
                yp = dd
            elif ctype < 0.3:
                yp = _Pred(yp)
            elif ctype < 0.45:       # a streaming loop that keeps ONE dict and overwrites its entries for every new prediction
                shared_pred.clear()
                shared_pred.update(yp)
                yp = shared_pred
            yp_copy = dict(yp)
            try:
                got = w(y_true=yt, y_prediction=yp) if 0.3 <= ctype < 0.36 else w(yt, yp)     # (documented parameter names, passed by keyword now and then)
            except Exception as ex:
                run.violation(f"loss-raises", f"{name}: loss({yt!r}, {yp!r}) raised {type(ex).__name__}: {ex}", {"metric": name, "y_true": yt, "y_pred": yp})
                ok = False
                break
            run.ok(kind="dict-metric" if dict_input else "scalar-metric")
            if alpha_name is not None:
                run.count("labels:binary-beyond-bool" if kind == "bin" else "labels:multiclass-wide")
                run.count(f"labels:{kind}:{alpha_name}")
            replay = {"metric": name, "call": i, "y_true": yt, "y_pred": yp, "wrappers_sharing": len(wrappers), "label_alphabet": alpha_name}
            if isinstance(got, float) and not math.isfinite(got):
                run.count("non-finite-loss-pairs")
            if not same(got, exp):
                run.violation("not-fresh-value", f"{name} call {i}: loss({yt!r}, {yp!r}) = {got!r}, a fresh metric gives {exp!r} (sign {sign})", replay)
                ok = False
            elif isinstance(got, float) and isinstance(exp, float) and not math.isnan(got):
                maxdev = max(maxdev, abs(got - exp))
            after = m.get()
            if not same(after, before):
                run.violation("metric-state-changed", f"{name} call {i}: metric.get() was {before!r}, now {after!r}", replay)
                ok = False
            want = dict if dict_input else type(yp["output"])
            if w in clones[1:]:
                pass            # (the pickled clone wraps a plain metric: no recording subclass to observe what reached it)
            elif not received or any((not issubclass(t, dict)) if want is dict else (t is not want) for t in received):
                run.violation("input-routing", f"{name}: metric received {received!r}, expected {want.__name__}", replay)
                ok = False
            if yp != yp_copy:
                run.violation("prediction-modified", f"{name}: y_pred dict modified", replay)
                ok = False
            if not ok:
                break
            if got == got and got != 0:
                run.nontriv((name, repr(yt), repr(sorted(yp.items(), key=repr))))
        run.count("metrics-exercised")
        if len(run.samples) < 3 and ok:
            run.sample({"metric": name, "kind": kind, "dict_input": dict_input, "sign": sign, "calls": ncalls,
                        "wrappers_sharing_metric": len(wrappers), "explainer_sharing": expl is not None,
                        "last_call": {"y_true": yt, "y_pred": yp, "loss": got}})
    # ---- CONFIGURED metrics (non-default constructor arguments) and the user's OWN metric classes: "a fresh metric" means a fresh
    # instance configured the same way
    class TrueClassProbability(Metric):
        """A user's dict-based, bigger-is-better metric: mean probability given to the true class."""
        bigger_is_better = True

        def __init__(self):
            self.s, self.n = 0.0, 0

        def update(self, y_true, y_pred):
            self.s += y_pred.get(y_true, 0.0)
            self.n += 1
            return self

        def revert(self, y_true, y_pred):
            self.s -= y_pred.get(y_true, 0.0)
            self.n -= 1
            return self

        def get(self):
            return self.s / self.n if self.n else 0.0

        def works_with(self, model):
            return True

    class MeanAbsDeviation(Metric):
        """A user's single-value, smaller-is-better metric."""
        bigger_is_better = False

        def __init__(self, scale=1.0):
            self.scale, self.s, self.n = scale, 0.0, 0

        def update(self, y_true, y_pred):
            self.s += abs(y_true - y_pred) * self.scale
            self.n += 1
            return self

        def revert(self, y_true, y_pred):
            self.s -= abs(y_true - y_pred) * self.scale
            self.n -= 1
            return self

        def get(self):
            return self.s / self.n if self.n else 0.0

        def works_with(self, model):
            return True
    configured = [("Precision(pos_val=0)", lambda: M.Precision(pos_val=0), "bin01"), ("Recall(pos_val=2)", lambda: M.Recall(pos_val=2), "lab"),
                  ("F1(pos_val='a')", lambda: M.F1(pos_val="a"), "str"), ("FBeta(beta=2)", lambda: M.FBeta(beta=2), "bin"),
                  ("FBeta(beta=0.5, pos_val=0)", lambda: M.FBeta(beta=0.5, pos_val=0), "bin01"), ("MacroFBeta(beta=2)", lambda: M.MacroFBeta(beta=2), "lab"),
                  ("Jaccard(pos_val=1)", lambda: M.Jaccard(pos_val=1), "bin01"), ("user:TrueClassProbability", TrueClassProbability, "dict"),
                  ("user:MeanAbsDeviation(scale=3)", lambda: MeanAbsDeviation(scale=3.0), "reg")]
    for ci, (cname, factory, dom) in enumerate(configured):
        if ci % nsh != sh:
            continue
        try:
            m = factory()
            lf = validate_loss_function(m)
        except Exception as ex:
            run.other_error(f"configured:{cname}:{type(ex).__name__}")
            continue
        sign = -1.0 if getattr(m, "bigger_is_better", False) else 1.0
        before = m.get()
        for i in range(80):
            if dom == "dict":
                labs = ["a", "b", "c"]
                yt = rnd.choice(labs)
                pr = [rnd.random() + 0.01 for _ in labs]
                yp = {l_: v_ / sum(pr) for l_, v_ in zip(labs, pr)}
                arg = yp
            elif dom == "reg":
                yt, yp = rnd.uniform(-3, 3), {"output": rnd.uniform(-3, 3)}
                arg = yp["output"]
            else:
                labs = {"bin": [False, True], "bin01": [0, 1], "lab": [0, 1, 2], "str": ["a", "b"]}[dom]
                yt, yp = rnd.choice(labs), {"output": rnd.choice(labs)}
                arg = yp["output"]
            try:
                fresh = factory()
                fresh.update(yt, arg)
                exp = fresh.get() * sign
            except Exception:
                run.count("pairs-outside-metric-domain")
                continue
            try:
                got = lf(yt, yp)
            except Exception as ex:
                run.violation("loss-raises", f"{cname}: loss({yt!r}, {yp!r}) raised {type(ex).__name__}: {ex}", {"metric": cname, "configured": True})
                break
            run.ok(kind="configured-metric")
            replay = {"metric": cname, "configured": True, "call": i, "y_true": yt, "y_pred": yp}
            if not same(got, exp):
                run.violation("not-fresh-value", f"{cname} call {i}: loss({yt!r}, {yp!r}) = {got!r}, a fresh metric configured the same way gives {exp!r}", replay)
                break
            if not same(m.get(), before):
                run.violation("metric-state-changed", f"{cname} call {i}: metric.get() was {before!r}, now {m.get()!r}", replay)
                break
            if got == got and got != 0:
                run.nontriv(("configured", cname, repr(yt), repr(sorted(yp.items(), key=repr))))
    # ---- metrics SHARING a confusion matrix (river's cm= argument), each used as a loss: every loss still returns the value of
    # a fresh stand-alone metric after the single pair, and neither metric's own value moves - whatever the construction order
    cm_classes = [n for n in accepted if "cm" in inspect.signature(getattr(M, n).__init__).parameters]
    run.notes["metrics_accepting_shared_cm"] = cm_classes
    for rep in range(6 if run.tier == "quick" else 40):
        if rep % nsh != sh or len(cm_classes) < 2:
            continue
        chosen = rnd.sample(cm_classes, rnd.choice([2, 2, 3]))
        bin_cm = [n_ for n_ in cm_classes if issubclass(getattr(M, n_), BinaryMetric)]
        if rep % 3 != 0 and bin_cm and not any(n_ in bin_cm for n_ in chosen):      # two groups in three contain a binary metric
            chosen[0] = rnd.choice(bin_cm)
        cm = M.ConfusionMatrix()
        objs, losses, befores = [], [], []
        okc = True
        for n_ in chosen:        # construction (and the validator's probing) happens one after the other on the shared matrix
            try:
                o = getattr(M, n_)(cm=cm)
                l_ = validate_loss_function(o)
            except Exception as ex:
                run.other_error(f"shared-cm-construct:{n_}:{type(ex).__name__}")
                okc = False
                break
            objs.append(o); losses.append(l_)
        if not okc:
            continue
        befores = [o.get() for o in objs]
        fresh0 = [getattr(M, n_)().get() for n_ in chosen]
        for j, n_ in enumerate(chosen):
            run.ok(kind="shared-cm")
            if not same(befores[j], fresh0[j]):
                run.violation("metric-state-changed", f"metrics {chosen} sharing one confusion matrix: after constructing the losses {n_}.get() is "
                                                      f"{befores[j]!r}, a fresh metric reports {fresh0[j]!r}", {"metrics": chosen, "shared_cm": True})
                okc = False
        labelset = rnd.choice([[0, 1, 2], ["a", "b", "c"], [0, 1], [False, True]])
        bin_name, bin_labels = (None, [False, True]) if rep % 3 == 0 else BIN_ALPHABETS[(rep + run.seed) % len(BIN_ALPHABETS)]
        for i in range(120 if okc else 0):
            j = rnd.randrange(len(chosen))
            n_, o, l_ = chosen[j], objs[j], losses[j]
            dict_input = bool(getattr(l_, "_dict_input_metric", False))
            kind = "bin" if isinstance(o, BinaryMetric) else "multi"
            labs = bin_labels if kind == "bin" else labelset
            yt = rnd.choice(labs)
            yp = {"output": rnd.choice(labs)}
            if kind == "bin" and bin_name is not None:
                run.count("labels:shared-cm-beyond-bool")
            try:
                fresh = getattr(M, n_)()
                fresh.update(yt, yp["output"])
                exp = fresh.get() * (-1.0 if getattr(o, "bigger_is_better", False) else 1.0)
            except Exception:
                run.count("pairs-outside-metric-domain")
                continue
            try:
                got = l_(yt, yp)
            except Exception as ex:
                run.violation("loss-raises", f"{n_} (shared cm with {chosen}): loss({yt!r}, {yp!r}) raised {type(ex).__name__}: {ex}", {"metrics": chosen, "shared_cm": True})
                break
            run.ok(kind="shared-cm")
            replay = {"metrics": chosen, "shared_cm": True, "call": i, "metric": n_, "y_true": yt, "y_pred": yp}
            if not same(got, exp):
                run.violation("not-fresh-value", f"{n_} sharing a confusion matrix with {chosen}: call {i} loss({yt!r}, {yp!r}) = {got!r}, a fresh metric gives {exp!r}", replay)
                break
            now = [oo.get() for oo in objs]
            if any(not same(a, b) for a, b in zip(now, befores)):
                run.violation("metric-state-changed", f"metrics {chosen} sharing a confusion matrix: after call {i} on {n_} their values are {now!r}, before {befores!r}", replay)
                break
            if got == got and got != 0:
                run.nontriv(("shared-cm", tuple(chosen), n_, repr(yt), repr(yp)))
    # ---- the metric handed to an EXPLAINER under each of its documented options (dynamic / static mode, SAGE's
    # loss_bigger_is_better): the loss the explainer applies is still "fresh metric after the single pair, smaller is better".
    # Observed through the public model_loss / marginal-free route: a static-mode explainer reports the running mean of the losses
    # of the explained observations (plus SAGE's documented offset 1 with loss_bigger_is_better=True).
    route_cfgs = [("Accuracy", "cls"), ("MAE", "reg"), ("F1", "bin"), ("MSE", "reg"), ("BalancedAccuracy", "cls"), ("Precision", "bin")]
    for rep, (mname, mkind) in enumerate(route_cfgs * (1 if run.tier == "quick" else 4)):
        if rep % nsh != sh or mname not in accepted:
            continue
        twin_importances = {}
        # the (negative, positive) labels of the binary stream: booleans, or another legal coding of the two classes
        neg_pos = [(False, True), (-1, 1), (1, 2), ("a", "b"), (0, 1), (0, 2), (0.0, 1.0), ("", "x")][(rep // 3) % 8]
        beyond_bool = (rep // 3) % 8 != 0
        for lbib in (False, True):
            metric = getattr(M, mname)()
            sign = -1.0 if getattr(metric, "bigger_is_better", False) else 1.0
            rs = random.Random(1000 * rep + run.seed)        # (the same stream for both settings of the flag)
            random.seed(rep); np.random.seed(rep)
            fnames = ["a", "b"]

            def model(x, _k=mkind, _np=neg_pos):
                if _k == "reg":
                    return {"output": 0.5 * x["a"] - x["b"]}
                if _k == "bin":
                    return {"output": _np[int(x["a"] > 0.4)]}
                return {"output": int(x["a"] > 0.4) + int(x["b"] > 0.7)}
            try:
                e = IncrementalSage(model, metric, fnames, loss_bigger_is_better=lbib, dynamic_setting=False, n_inner_samples=1)
            except Exception as ex:
                run.violation("loss-raises", f"IncrementalSage({mname}(), loss_bigger_is_better={lbib}) raised {type(ex).__name__}: {ex}",
                              {"metric": mname, "explainer_route": True, "loss_bigger_is_better": lbib})
                continue
            ref_losses = []
            okr = True
            for t in range(14):
                x = {"a": rs.random(), "b": rs.random()}
                pred = model(x)["output"]
                if mkind == "reg":
                    y = pred + rs.choice([0.0, 0.25, -1.0, 2.0])
                elif mkind == "bin":
                    y = pred if rs.random() < 0.6 else neg_pos[1 - neg_pos.index(pred)]
                    if beyond_bool:
                        run.count("labels:explainer-route-beyond-bool")
                else:
                    y = pred if rs.random() < 0.6 else (pred + 1) % 3
                try:
                    e.explain_one(x, y)
                except Exception as ex:
                    run.violation("loss-raises", f"IncrementalSage with {mname}() (loss_bigger_is_better={lbib}) call {t} raised {type(ex).__name__}: {ex}",
                                  {"metric": mname, "explainer_route": True, "loss_bigger_is_better": lbib})
                    okr = False
                    break
                if t == 0:
                    continue
                fresh = getattr(M, mname)()
                fresh.update(y, pred)
                ref_losses.append(sign * fresh.get())
                run.ok(kind="explainer-route")
                imp_now = {k_: float(v_) for k_, v_ in e.importance_values.items()}
                if not lbib:
                    # flag off: model_loss is the running mean of the losses the explainer applied
                    want = sum(ref_losses) / len(ref_losses)
                    got = e.model_loss
                    twin_importances[t] = imp_now
                    if not (abs(float(got) - want) <= 1e-9 * max(1.0, abs(want))):
                        run.violation("not-fresh-value", f"IncrementalSage(static) with {mname}(): model_loss after {t + 1} calls is {got!r}; "
                                                         f"the mean of the fresh-metric losses (smaller is better) is {want!r}",
                                      {"metric": mname, "explainer_route": True, "loss_bigger_is_better": lbib, "call": t})
                        okr = False
                        break
                else:
                    # flag on: documented as "only used to represent the marginal- and model-loss": the importance values are those
                    # of the twin built without the flag on the same stream and seeds (how the two losses are REPRESENTED is not judged)
                    want_imp = twin_importances.get(t)
                    if want_imp is not None and not (set(want_imp) == set(imp_now) and all(abs(imp_now[k_] - want_imp[k_]) <= 1e-9 * max(1.0, abs(want_imp[k_])) for k_ in want_imp)):
                        run.violation("not-fresh-value", f"IncrementalSage(static, loss_bigger_is_better=True) with {mname}(): importance values after {t + 1} calls "
                                                         f"{imp_now!r} differ from those of the same explainer without the flag {want_imp!r} (the loss applied is not the same "
                                                         f"smaller-is-better loss)", {"metric": mname, "explainer_route": True, "loss_bigger_is_better": lbib, "call": t})
                        okr = False
                        break
                if not same(metric.get(), getattr(M, mname)().get()):
                    run.violation("metric-state-changed", f"{mname} used by IncrementalSage(loss_bigger_is_better={lbib}): metric.get() moved to {metric.get()!r}",
                                  {"metric": mname, "explainer_route": True, "loss_bigger_is_better": lbib, "call": t})
                    okr = False
                    break
            if okr:
                run.nontriv(("explainer-route", mname, lbib))
    run.notes["accepted_metrics"] = accepted
    run.notes["rejected_metrics"] = rejected
    run.notes["max_abs_deviation_from_fresh"] = maxdev
