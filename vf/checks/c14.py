"""C14 - model wrappers: one canonical dict output form for single and batch input; dispatch."""
import collections
import itertools
import random
import warnings

import numpy as np

SHARDS = {"quick": 1, "thorough": 8}


def canon_row(a):
    """Reference canonicaliser written from the statement: size-one -> {'output': v}, vector -> {i: v_i}."""
    a = np.asarray(a)
    if a.size == 1:
        return {"output": float(a.reshape(-1)[0])}
    flat = a.reshape(-1)
    return {i: flat[i] for i in range(flat.shape[0])}


def eq_out(got, exp):
    if not isinstance(got, dict) or len(got) != len(exp):
        return False
    for k, v in exp.items():
        if k not in got:
            return False
        g = got[k]
        if isinstance(g, np.ndarray):
            if g.size != 1:
                return False
            g = g.reshape(-1)[0]
        try:
            if not (float(g) == float(v)):
                return False
        except Exception:
            return False
    if "output" in exp and not isinstance(got["output"], (int, float, np.floating, np.integer)):
        return False
    return True


def row_fn(c, dtype):
    """Row-independent model g(row) -> vector of c outputs."""
    def g(row):
        row = np.asarray(row, dtype=float)
        base = np.array([float(np.dot(row, np.arange(1, row.shape[0] + 1))) * (k + 1) + k for k in range(c)])
        if dtype == "bool":
            return (base.astype(np.int64) % 2).astype(bool)
        if dtype == "int64":
            return base.astype(np.int64)
        if dtype == "prob":        # class-probability rows: non-negative, summing to one up to rounding (soft-max of the scores)
            z = np.exp((base - base.max()) / (1.0 + np.abs(base).max()))
            return (z / z.sum()).astype("float64")
        return base.astype(dtype)
    return g


def make_pf(shape_kind, c, dtype, seen):
    g = row_fn(c, dtype)

    def pf(arr):
        arr = np.asarray(arr)
        seen.append(arr.copy())
        out = np.stack([g(r) for r in arr])          # (n, c)
        n = out.shape[0]
        if shape_kind == "(n,)":
            return out[:, 0]
        if shape_kind == "(n,1)":
            return out[:, :1]
        if shape_kind == "(n,c)":
            return out
        if shape_kind == "(n,c)F":
            return np.asfortranarray(out)          # the same rows in column-major memory (what `np.asarray(columns).T` hands out)
        if shape_kind == "(c,1)":
            return out[0][:, None] if n == 1 else out      # one row's vector as a COLUMN, shape (c, 1)
        if shape_kind == "()":
            return out[0, 0] if n == 1 else out[:, 0]
        if shape_kind == "(c,)":
            return out[0] if n == 1 else out
        raise ValueError(shape_kind)
    return pf, g


def main(run):
    import torch
    from ixai.utils.wrappers import SklearnWrapper, TorchWrapper, RiverWrapper
    from ixai.utils.wrappers.base import Wrapper
    from ixai.utils.validators import validate_model_function
    run.rule = ("synthetic row-independent prediction functions over output shapes {(), (1,), (1,1), (c,), (1,c)} for dict input and "
                "{(n,), (n,1), (n,c)} for list input x dtypes {float64,float32,int64,bool} x n in {1,2,7} x c in {1,2,3}, through "
                "SklearnWrapper and TorchWrapper; RiverWrapper over dict / float / int / bool / string-label outputs with growing label "
                "sets; results compared with a reference canonicaliser written from the statement; dict-vs-list agreement; with "
                "feature_names every permutation of the key order gives the identical result and the recorded array that reached "
                "the model has exactly those columns in that order; list/tuple/deque batches; one long-lived wrapper object over outputs of changing width and batches of 255..4097 rows; dispatch sweep over every "
                "constructible sklearn estimator / river model with a predict method and torch modules; evaluations = wrapper calls "
                "judged; non-trivial = distinct (wrapper, shape, dtype, n, c, input form) cases")
    run.assumptions = ["batch outputs are indexable by row (functions that squeeze away the row axis are used with dict input only)"]
    run.require("ixai/utils/wrappers/base.py:Wrapper.convert_arr_output_to_dict", "ixai/utils/wrappers/sklearn.py:SklearnWrapper.__call__",
                "ixai/utils/wrappers/torch.py:TorchWrapper.__call__", "ixai/utils/wrappers/river.py:RiverWrapper.__call__",
                "ixai/utils/validators/model.py:validate_model_function")
    run.require_count("categorical-single-calls", "categorical-first-value-is-string", "categorical-all-strings-equal-length", "categorical-batch-calls",
                      "pipeline-categorical-calls", "mapping-subclass-calls", "mapping-absent-name-calls")
    rnd = random.Random(run.shard_seed)
    thorough = run.tier == "thorough"
    feats = ["a", "b", "c", "d"]

    def rand_x():
        return {f: float(rnd.randrange(-9, 10)) for f in feats}

    # ---------------- SklearnWrapper / TorchWrapper canonical forms
    for wrapper_kind in ("sklearn", "torch"):
        for shape_kind, c in [("(n,)", 1), ("(n,1)", 1), ("(n,c)", 1), ("(n,c)", 2), ("(n,c)", 3), ("()", 1), ("(c,)", 2), ("(c,)", 3), ("(c,)", 1),
                              ("(n,c)F", 2), ("(n,c)F", 3), ("(c,1)", 2), ("(c,1)", 3)]:
            for dtype in ("float64", "float32", "int64", "bool", "prob"):
                if wrapper_kind == "torch" and dtype == "bool" and shape_kind in ("()",):
                    pass
                for use_names in (False, True, "one", "two", "all"):
                    seen = []
                    pf, g = make_pf(shape_kind, c, dtype, seen)
                    names = {False: None, True: ["c", "a", "d"], "one": ["b"], "two": ["d", "a"], "all": ["d", "c", "b", "a"]}[use_names]
                    if wrapper_kind == "sklearn":
                        w = SklearnWrapper(pf, feature_names=names)
                    else:
                        def link(t, pf=pf):
                            return torch.as_tensor(np.asarray(pf(t.numpy())))
                        w = TorchWrapper(link, feature_names=names)
                    cols = names if use_names else feats
                    tag = f"{wrapper_kind} shape={shape_kind} c={c} dtype={dtype} feature_names={names}"
                    # single dict input, all key orders when names are given
                    for rep in range(2 if not thorough else 6):
                        x = rand_x()
                        exp = canon_row(g([x[f] for f in cols])[:c] if shape_kind != "(n,)" and shape_kind != "(n,1)" and shape_kind != "()" else g([x[f] for f in cols])[:1])
                        orders = list(itertools.permutations(feats)) if use_names else [tuple(feats)]
                        if use_names and not thorough:
                            orders = rnd.sample(orders, 6)
                        first = None
                        for order in orders:
                            xd = {f: x[f] for f in order}
                            del seen[:]
                            replay = {"wrapper": wrapper_kind, "shape": shape_kind, "c": c, "dtype": dtype, "feature_names": names, "x": xd}
                            try:
                                got = w(xd)
                            except Exception as ex:
                                run.ok(kind="single")
                                run.violation("single-input-raises", f"{tag}: {type(ex).__name__}: {ex}", replay)
                                continue
                            run.ok(kind="single")
                            if not eq_out(got, exp):
                                mech = "size-one-output-label" if len(exp) == 1 and "output" in exp else "vector-output-form"
                                run.violation(mech, f"{tag}: wrapper({xd!r}) = {got!r}, canonical form {exp!r}", replay)
                            if use_names:
                                arr = seen[-1]
                                if arr.shape != (1, len(cols)) or not all(float(arr[0, j]) == x[f] for j, f in enumerate(cols)):
                                    run.violation("feature-order", f"{tag}: array reaching the model {arr!r} for input {xd!r}", replay)
                                if first is None:
                                    first = got
                                elif not eq_out(got, {k: (v if not isinstance(v, np.ndarray) else v.reshape(-1)[0]) for k, v in first.items()}):
                                    run.violation("key-order-dependence", f"{tag}: result depends on key order: {first!r} vs {got!r}", replay)
                            run.nontriv((wrapper_kind, shape_kind, c, dtype, use_names, "single"))
                    # list input
                    if shape_kind in ("(n,)", "(n,1)", "(n,c)", "(n,c)F"):
                        for n in (1, 2, 7):
                            for cont in (list, tuple, collections.deque):
                                xs = [rand_x() for _ in range(n)]
                                if n >= 3 and rnd.random() < 0.4:
                                    xs[n - 1] = dict(xs[0])       # the same row occurs twice in the batch, not adjacent ([a, b, ..., a])
                                elif n > 1 and rnd.random() < 0.5:
                                    # first row all Python ints, later rows with fractional parts (dtype promotion over the batch)
                                    xs[0] = {f: int(v) for f, v in xs[0].items()}
                                    xs[1:] = [{f: v + 0.5 for f, v in xi.items()} for xi in xs[1:]]
                                if use_names:
                                    xs = [{f: xi[f] for f in rnd.sample(feats, len(feats))} for xi in xs]
                                exps = [canon_row(g([xi[f] for f in cols])[:(c if shape_kind in ("(n,c)", "(n,c)F") else 1)]) for xi in xs]
                                replay = {"wrapper": wrapper_kind, "shape": shape_kind, "c": c, "dtype": dtype, "feature_names": names,
                                          "xs": xs, "container": cont.__name__}
                                del seen[:]
                                try:
                                    got = w(cont(xs))
                                except Exception as ex:
                                    run.ok(kind="batch")
                                    run.violation("batch-input-raises", f"{tag} n={n} {cont.__name__}: {type(ex).__name__}: {ex}", replay)
                                    continue
                                run.ok(kind="batch")
                                if not isinstance(got, list) or len(got) != n or not all(eq_out(a, b) for a, b in zip(got, exps)):
                                    mech = "size-one-output-label" if len(exps[0]) == 1 else "batch-row-form"
                                    run.violation(mech, f"{tag} n={n}: wrapper(list) = {got!r}, canonical rows {exps!r}", replay)
                                else:
                                    singles = [w(xi) for xi in xs]
                                    if not all(eq_out(a, {k: (v if not isinstance(v, np.ndarray) else v.reshape(-1)[0]) for k, v in b.items()}) for a, b in zip(got, singles)):
                                        run.violation("single-vs-batch", f"{tag} n={n}: batch {got!r} vs one-at-a-time {singles!r}", replay)
                                if use_names and seen:
                                    arr = seen[0]
                                    if arr.shape != (n, len(cols)) or not all(float(arr[i, j]) == xs[i][f] for i in range(n) for j, f in enumerate(cols)):
                                        run.violation("feature-order", f"{tag}: batch array reaching the model {arr!r}", replay)
                                run.nontriv((wrapper_kind, shape_kind, c, dtype, use_names, n, cont.__name__))
                                if len(run.samples) < 2 and n == 2 and c == 2 and isinstance(got, list):
                                    run.sample({**replay, "result": got})
    # ---------------- categorical (string-valued) feature values and dict SUBCLASSES as input containers
    # A feature dict may carry strings (a categorical feature, also as its FIRST entry; the base-class docstring shows
    # {'feature_1': 'value_1', 'feature_2': 2}); NumPy then hands the model a string array. The model here decodes every cell
    # (numeric text -> the number, other text -> a small code) and is row-independent, so the canonical form of a single dict and of
    # the rows of a batch is known from the feature values alone. TorchWrapper converts to float32 tensors: strings are not legal there.
    def cat_code(s_):
        s_ = str(s_)
        try:
            return float(s_)
        except ValueError:
            return float(sum((i_ + 1) * ord(ch) for i_, ch in enumerate(s_)) % 17 - 8)
    palettes = [["red", "tan", "sky"], ["blue", "green", "x", "magenta"], ["big", "small"], ["caf\u00e9", "na\u00efve", "ab"], ["aa", "bb", "cc", "dd"]]

    def rand_cat_x(first_str, all_str, pal_same):
        x = {}
        for j, f in enumerate(feats):
            if all_str or (j == 0 and first_str) or (j > 0 and rnd.random() < 0.4):
                x[f] = rnd.choice(palettes[0] if pal_same else rnd.choice(palettes))
            else:
                x[f] = rnd.choice([float(rnd.randrange(-9, 10)), rnd.randrange(-9, 10), rnd.randrange(-40, 40) / 8.0])
        return x
    cat_i = 0
    for shape_kind, c in [("(n,)", 1), ("(n,1)", 1), ("(n,c)", 1), ("(n,c)", 3), ("()", 1), ("(c,)", 2), ("(n,c)F", 2)]:
        for dtype in ("float64", "int64", "prob"):
            for names in (None, ["c", "a", "d"], ["d", "c", "b", "a"], ["b"]):
                inner = []
                pf, g = make_pf(shape_kind, c, dtype, inner)
                raw_seen = []

                def pfc(arr, pf=pf, raw_seen=raw_seen):
                    arr = np.asarray(arr)
                    raw_seen.append(arr.copy())
                    return pf(np.array([[cat_code(v) for v in r] for r in arr], dtype=float))
                w = SklearnWrapper(pfc, feature_names=names)
                cols = names if names else feats
                width = c if shape_kind in ("(n,c)", "(n,c)F", "(c,)") else 1
                tag = f"sklearn categorical shape={shape_kind} c={c} dtype={dtype} feature_names={names}"
                for rep in range(3 if not thorough else 10):
                    cat_i += 1
                    first_str, all_str, pal_same = cat_i % 2 == 0, cat_i % 3 == 0, cat_i % 4 < 2
                    x = rand_cat_x(first_str, all_str, pal_same)
                    order = feats if (first_str and rep != 2) else rnd.sample(feats, len(feats))
                    xd = {f: x[f] for f in order}
                    exp = canon_row(g([cat_code(x[f]) for f in (cols if names else order)])[:width])     # without names: the dict's own order
                    replay = {"wrapper": "sklearn", "categorical": True, "shape": shape_kind, "c": c, "dtype": dtype, "feature_names": names, "x": xd}
                    del raw_seen[:]
                    run.ok(kind="categorical-single")
                    run.count("categorical-single-calls")
                    if isinstance(next(iter(xd.values())), str):
                        run.count("categorical-first-value-is-string")
                    if len({len(v) for v in xd.values() if isinstance(v, str)}) == 1 and all(isinstance(v, str) for v in xd.values()):
                        run.count("categorical-all-strings-equal-length")
                    try:
                        got = w(xd)
                    except Exception as ex:
                        run.violation("single-input-raises", f"{tag}: wrapper({xd!r}) raised {type(ex).__name__}: {ex}", replay)
                        continue
                    if not eq_out(got, exp):
                        run.violation("size-one-output-label" if "output" in exp else "vector-output-form",
                                      f"{tag}: wrapper({xd!r}) = {got!r}, canonical form {exp!r}", replay)
                    if names and raw_seen:
                        arr = raw_seen[-1]
                        if arr.shape != (1, len(cols)) or not all(cat_code(arr[0, j]) == cat_code(x[f]) for j, f in enumerate(cols)):
                            run.violation("feature-order", f"{tag}: array reaching the model {arr!r} for input {xd!r}", replay)
                    run.nontriv(("categorical", shape_kind, c, dtype, tuple(names or ()), first_str, all_str, "single"))
                if shape_kind in ("(n,)", "(n,1)", "(n,c)", "(n,c)F"):
                    for n in (1, 2, 5):
                        cat_i += 1
                        xs = [rand_cat_x(cat_i % 2 == 0, cat_i % 3 == 0, cat_i % 4 < 2) for _ in range(n)]
                        if names:
                            xs = [{f: xi[f] for f in rnd.sample(feats, len(feats))} for xi in xs]
                        exps = [canon_row(g([cat_code(xi[f]) for f in cols])[:width]) for xi in xs]
                        replay = {"wrapper": "sklearn", "categorical": True, "shape": shape_kind, "c": c, "dtype": dtype, "feature_names": names, "xs": xs}
                        run.ok(kind="categorical-batch")
                        run.count("categorical-batch-calls")
                        try:
                            got = w(list(xs))
                            singles = [w(xi) for xi in xs]
                        except Exception as ex:
                            run.violation("batch-input-raises", f"{tag} n={n}: {type(ex).__name__}: {ex}", replay)
                            continue
                        if not isinstance(got, list) or len(got) != n or not all(eq_out(a, b) for a, b in zip(got, exps)):
                            run.violation("size-one-output-label" if len(exps[0]) == 1 else "batch-row-form",
                                          f"{tag} n={n}: wrapper(list) = {got!r}, canonical rows {exps!r}", replay)
                        elif not all(eq_out(a, b) for a, b in zip(singles, exps)):
                            run.violation("single-vs-batch", f"{tag} n={n}: batch {got!r} vs one-at-a-time {singles!r}", replay)
                        run.nontriv(("categorical", shape_kind, c, dtype, tuple(names or ()), n, "batch"))
    # a real sklearn Pipeline over categorical columns (OneHotEncoder -> tree / logistic model): the judge is the pipeline's own output
    try:
        from sklearn.pipeline import make_pipeline
        from sklearn.preprocessing import OneHotEncoder
        from sklearn.tree import DecisionTreeClassifier as _DTC, DecisionTreeRegressor as _DTR
        from sklearn.linear_model import LogisticRegression as _LR
        cat_cols = ["colour", "size", "shape"]
        cat_pal = {"colour": ["red", "tan", "sky", "blue"], "size": ["big", "small", "mid"], "shape": ["box", "orb", "rod", "cone"]}
        Xc = np.array([[rnd.choice(cat_pal[f]) for f in cat_cols] for _ in range(80)])
        num = np.array([[cat_code(v) for v in r] for r in Xc])
        ycl = (num[:, 0] + num[:, 1] > 0).astype(int) + (num[:, 2] > 2).astype(int)
        yrg = num @ np.array([1.0, -2.0, 0.5])
        for est, y, meths in [(_DTC(max_depth=4, random_state=0), ycl, ("predict", "predict_proba")), (_DTR(max_depth=4, random_state=0), yrg, ("predict",)),
                              (_LR(), ycl, ("predict", "predict_proba"))]:
            with warnings.catch_warnings():
                warnings.simplefilter("ignore")
                pipe = make_pipeline(OneHotEncoder(handle_unknown="ignore"), est).fit(Xc, y)
            for meth in meths:
                for names in (None, ["colour", "size", "shape"]):
                    with warnings.catch_warnings():
                        warnings.simplefilter("ignore")
                        w = validate_model_function(getattr(pipe, meth)) if names is None else SklearnWrapper(getattr(pipe, meth), feature_names=names)
                    run.ok(kind="dispatch")
                    if not isinstance(w, SklearnWrapper):
                        run.violation("dispatch-sklearn", f"sklearn Pipeline.{meth} mapped to {type(w).__name__}", {"estimator": "Pipeline", "method": meth})
                        continue
                    xs = [{f: rnd.choice(cat_pal[f]) for f in cat_cols} for _ in range(4)]
                    rows = np.array([[xi[f] for f in cat_cols] for xi in xs])
                    raw = getattr(pipe, meth)(rows)
                    raw1 = [getattr(pipe, meth)(rows[i:i + 1]) for i in range(len(xs))]
                    if names:
                        xs = [{f: xi[f] for f in rnd.sample(cat_cols, 3)} for xi in xs]
                    replay = {"estimator": f"Pipeline(OneHotEncoder, {type(est).__name__})", "method": meth, "feature_names": names, "xs": xs}
                    run.ok(kind="pipeline-categorical")
                    run.count("pipeline-categorical-calls")
                    try:
                        batch = w(xs)
                        singles = [w(xi) for xi in xs]
                    except Exception as ex:
                        run.violation("batch-input-raises", f"Pipeline(OneHotEncoder, {type(est).__name__}).{meth} predicts the rows itself, but the wrapper raised "
                                                            f"{type(ex).__name__}: {ex}", replay)
                        continue
                    if not (isinstance(batch, list) and len(batch) == len(xs) and all(eq_out(a, canon_row(raw[i])) for i, a in enumerate(batch))):
                        run.violation("batch-row-form", f"Pipeline.{meth} over categorical features: batch {batch!r} vs the pipeline's rows {raw!r}", replay)
                    if not all(eq_out(a, canon_row(b)) for a, b in zip(singles, raw1)):
                        run.violation("size-one-output-label" if np.asarray(raw1[0]).size == 1 else "vector-output-form",
                                      f"Pipeline.{meth} over categorical features: one-at-a-time {singles!r} vs the pipeline's own one-row outputs {raw1!r}", replay)
                    run.nontriv(("pipeline-categorical", type(est).__name__, meth, bool(names)))
    except ImportError:
        pass
    # dict subclasses as the input mapping: OrderedDict, Counter (absent key = 0), defaultdict (absent key = the default). The value of
    # feature f in the mapping x is x[f]; with feature_names exactly [x[f] for f in names] reaches the model, single and batch alike.
    def make_mapping(kind, x, drop):
        items = [(f, v) for f, v in x.items() if f not in drop]
        if kind == "OrderedDict":
            return collections.OrderedDict(items), None
        if kind == "Counter":
            return collections.Counter({f: int(v) for f, v in items}), 0
        if kind == "defaultdict-float":
            m = collections.defaultdict(float)
            m.update(items)
            return m, 0.0
        dv = float(rnd.randrange(-5, 6)) + 0.5
        m = collections.defaultdict(lambda dv=dv: dv)
        m.update(items)
        return m, dv
    map_i = 0
    for wrapper_kind in ("sklearn", "torch"):
        for shape_kind, c in [("(n,)", 1), ("(n,1)", 1), ("(n,c)", 3), ("(n,c)", 1)]:
            for dtype in ("float64", "float32", "int64"):
                for names in (None, ["c", "a", "d"], ["b"], ["d", "c", "b", "a"]):
                    seen = []
                    pf, g = make_pf(shape_kind, c, dtype, seen)
                    if wrapper_kind == "sklearn":
                        w = SklearnWrapper(pf, feature_names=names)
                    else:
                        def link(t, pf=pf):
                            return torch.as_tensor(np.asarray(pf(t.numpy())))
                        w = TorchWrapper(link, feature_names=names)
                    cols = names if names else feats
                    width = c if shape_kind == "(n,c)" else 1
                    for mkind in ("OrderedDict", "Counter", "defaultdict-float", "defaultdict-const"):
                        map_i += 1
                        n = [1, 1, 3, 2][map_i % 4]
                        batch = map_i % 3 == 0 or n > 1
                        tag = f"{wrapper_kind} shape={shape_kind} c={c} dtype={dtype} feature_names={names} input mapping {mkind}"
                        xs, vals, n_missing = [], [], 0
                        for _ in range(n):
                            x = {f: float(rnd.randrange(0, 10)) for f in rnd.sample(feats, len(feats))}
                            # absent names only where the mapping itself defines them (__missing__) and the wrapper selects by name
                            drop = set(rnd.sample(feats, rnd.choice([1, 2]))) if (names and mkind != "OrderedDict" and map_i % 5 != 0) else set()
                            m, dv = make_mapping(mkind, x, drop)
                            n_missing += sum(1 for f in cols if f in drop)
                            vals.append([float(dv if f in drop else x[f]) for f in cols] if names else [float(v) for f, v in x.items()])
                            xs.append(m)
                        exps = [canon_row(g(v)[:width]) for v in vals]
                        replay = {"wrapper": wrapper_kind, "shape": shape_kind, "c": c, "dtype": dtype, "feature_names": names, "mapping": mkind,
                                  "xs": [dict(m) for m in xs], "values_by_name": vals, "batch": batch}
                        run.ok(kind="mapping-subclass")
                        run.count("mapping-subclass-calls")
                        if n_missing:
                            run.count("mapping-absent-name-calls")
                        del seen[:]
                        try:
                            got = w(list(xs)) if batch else [w(xs[0])]
                        except Exception as ex:
                            run.violation("batch-input-raises" if batch else "single-input-raises",
                                          f"{tag}: {'batch' if batch else 'single'} call on {xs!r} raised {type(ex).__name__}: {ex}", replay)
                            continue
                        if not isinstance(got, list) or len(got) != n or not all(eq_out(a, b) for a, b in zip(got, exps)):
                            run.violation("size-one-output-label" if len(exps[0]) == 1 else ("batch-row-form" if batch else "vector-output-form"),
                                          f"{tag}: wrapper({xs!r}) = {got!r}, canonical {exps!r}", replay)
                        if names and seen:
                            arr = np.asarray(seen[0])
                            if arr.shape != (n, len(cols)) or not all(float(arr[i, j]) == vals[i][j] for i in range(n) for j in range(len(cols))):
                                run.violation("feature-order", f"{tag}: array reaching the model {arr!r}, values by name {vals!r}", replay)
                        if batch:
                            try:
                                singles = [w(m) for m in xs]
                            except Exception as ex:
                                run.violation("single-input-raises", f"{tag}: single call raised {type(ex).__name__}: {ex} (the batch call returned {got!r})", replay)
                                continue
                            if not all(eq_out(a, b) for a, b in zip(singles, exps)):
                                run.violation("single-vs-batch", f"{tag}: batch {got!r} vs one-at-a-time {singles!r}", replay)
                        run.nontriv(("mapping", wrapper_kind, shape_kind, c, dtype, tuple(names or ()), mkind, n, batch))
    # ---------------- RiverWrapper
    for rep in range(90 if not thorough else 400):
        kind = ["dict", "float", "int", "bool", "str", "npfloat", "str", "npbool", "npint", "npfloat32"][rep % 10]
        if rep % 20 == 16:
            kind = "mixed"          # HISTORY: one wrapper sees string labels AND numeric predictions, in either order (labels such as 'low', 'mid', 2)
        labels = rnd.sample(["cat", "dog", "bird", "fish", "x", "y", "z"], [2, 3, 5, 7][rep % 4])

        def pred(x, kind=kind, labels=labels):
            s = int(sum(x.values()))
            if kind == "dict":
                return {l: float((s + i) % 3) for i, l in enumerate(labels)}
            if kind == "float":
                return s / 4.0
            if kind == "npfloat":
                return np.float64(s / 4.0)
            if kind == "int":
                return s
            if kind == "bool":
                return s % 2 == 0
            if kind == "npbool":
                return np.bool_(s % 2 == 0)
            if kind == "npint":
                return np.int64(s)
            if kind == "npfloat32":
                return np.float32(s / 4.0)
            if kind == "mixed" and s % 3 == 0:
                return [2, 0, 1.5, np.int64(3), True][s % 5]
            return labels[s % len(labels)]
        w = RiverWrapper(pred)
        seen_labels = []
        if rep % 30 == 4:          # a long-lived wrapper over a large, slowly growing label set
            labels = [f"lab{j}" for j in range(60)]
            kind = "str"

            def pred(x, labels=labels):      # noqa: F811
                return labels[int(abs(sum(x.values()))) % len(labels)]
            w = RiverWrapper(pred)
        for call in range(12 if rep % 30 != 4 else 300):
            batch = rnd.random() < 0.4
            xs = [rand_x() for _ in range(rnd.choice([1, 2, 5]) if batch else 1)]
            exps = []
            for xi in xs:
                p = pred(xi)
                if kind == "dict":
                    exps.append(dict(p))
                elif kind == "str" or (kind == "mixed" and isinstance(p, str)):
                    if p not in seen_labels:
                        seen_labels.append(p)
                    exps.append({l: (1.0 if l == p else 0.0) for l in seen_labels})
                    if kind == "mixed":
                        run.count("river-mixed-history-calls")
                else:
                    exps.append({"output": float(p)})
            got = w(xs) if batch else [w(xs[0])]
            run.ok(kind="river")
            replay = {"wrapper": "river", "output_kind": kind, "labels": labels, "call": call, "xs": xs, "batch": batch}
            good = isinstance(got, list) and len(got) == len(exps) and all(
                isinstance(a, dict) and set(a.keys()) == set(b.keys()) and all(float(a[k]) == float(b[k]) for k in b) for a, b in zip(got, exps))
            if not good:
                run.violation("river-output-form", f"river {kind}: got {got!r}, canonical {exps!r}", replay)
                break
            run.nontriv(("river", kind, batch, len(seen_labels)))
            if call % 3 == 1 and isinstance(got, list):
                # the caller post-processes the dicts it was handed (drops zero entries, adds a key): its own copies, not the wrapper's memory
                for gd in got:
                    if isinstance(gd, dict):
                        for k_ in [k_ for k_, v_ in gd.items() if not v_]:
                            del gd[k_]
                        gd["note-added-by-caller"] = 1.0
        if len(run.samples) < 3 and kind == "str":
            run.sample({"wrapper": "river", "output_kind": kind, "labels_seen_in_order": seen_labels, "last_result": got})
    # ---------------- ONE long-lived wrapper object: output width that changes between calls (a classifier refitted after a new
    # class appeared), and large batches (chunking thresholds): the canonical form is a function of THIS call's output only
    big_ns = [255, 256, 257, 511, 513, 700, 1000] + ([1025, 4097, 9000] if thorough else [1025])
    for wrapper_kind in ("sklearn", "torch"):
        state = {"c": 2}
        seen = []

        def pf_var(arr):
            arr = np.asarray(arr, dtype=float)
            seen.append(arr.shape)
            c_ = state["c"]
            out = np.stack([np.array([float(np.dot(r, np.arange(1, r.shape[0] + 1))) * (k + 1) + k for k in range(c_)]) for r in arr])
            return out[:, 0] if state.get("flat") else out
        if wrapper_kind == "sklearn":
            w = SklearnWrapper(pf_var)
        else:
            w = TorchWrapper(lambda t: torch.as_tensor(pf_var(t.numpy())))
        widths = [2, 2, 4, 3, 1, 5, 2, 7, 1, 3] + [rnd.choice([1, 2, 3, 6]) for _ in range(10)]
        for ci, c_ in enumerate(widths):
            state["c"], state["flat"] = c_, (c_ == 1 and ci % 2 == 0)
            n = rnd.choice([1, 1, 2, 5]) if ci % 3 else rnd.choice(big_ns)
            xs = [rand_x() for _ in range(n)]
            exps = [canon_row([float(np.dot([xi[f] for f in feats], np.arange(1, 5))) * (k + 1) + k for k in range(c_)]) for xi in xs]
            replay = {"wrapper": wrapper_kind, "one_wrapper_object": True, "widths_so_far": widths[:ci + 1], "n": n}
            try:
                got = [w(xs[0])] if n == 1 and ci % 2 else w(list(xs))
            except Exception as ex:
                run.ok(kind="long-lived-wrapper")
                run.violation("batch-input-raises", f"{wrapper_kind} wrapper reused, width {c_}, n={n}: {type(ex).__name__}: {ex}", replay)
                continue
            run.ok(kind="long-lived-wrapper")
            if not isinstance(got, list) or len(got) != n:
                run.violation("batch-row-form", f"{wrapper_kind} wrapper, batch of {n} dicts: {len(got) if isinstance(got, list) else type(got).__name__} output dicts", replay)
            elif not all(eq_out(a, b) for a, b in zip(got, exps)):
                bad_i = next(i for i, (a, b) in enumerate(zip(got, exps)) if not eq_out(a, b))
                run.violation("vector-output-form" if c_ > 1 else "size-one-output-label",
                              f"{wrapper_kind} wrapper object reused over outputs of width {widths[:ci + 1]}: row {bad_i} of {n} is {got[bad_i]!r}, canonical form {exps[bad_i]!r}", replay)
            run.nontriv(("long-lived", wrapper_kind, c_, n))
    try:
        from sklearn.naive_bayes import GaussianNB
        nb = GaussianNB()
        wnb = SklearnWrapper(nb.predict_proba)
        X2 = np.array([[0.0, 0.0], [1.0, 1.0], [0.2, 0.1], [0.9, 1.2]])
        nb.fit(X2, [0, 1, 0, 1])
        r2 = wnb({"a": 0.1, "b": 0.2})
        nb.fit(np.vstack([X2, [[5.0, 5.0], [5.5, 4.5]]]), [0, 1, 0, 1, 2, 2])
        r3 = wnb({"a": 0.1, "b": 0.2})
        own = nb.predict_proba(np.array([[0.1, 0.2]]))[0]
        run.ok(2, kind="long-lived-wrapper")
        if sorted(r2) != [0, 1] or sorted(r3) != [0, 1, 2] or any(float(r3[i]) != float(own[i]) for i in range(3)):
            run.violation("vector-output-form", f"SklearnWrapper(GaussianNB.predict_proba) reused after a refit with a third class: {r2!r} then {r3!r}, "
                                                f"the model's own row {own!r}", {"wrapper": "sklearn", "refit_with_new_class": True})
    except ImportError:
        pass
    # ---------------- dispatch
    for W in (SklearnWrapper(lambda a: np.array([1.0])), RiverWrapper(lambda x: 1.0), TorchWrapper(lambda t: t.sum())):
        run.ok(kind="dispatch")
        with warnings.catch_warnings():
            warnings.simplefilter("ignore")
            if validate_model_function(W) is not W:
                run.violation("dispatch-wrapper-identity", f"{type(W).__name__} instance was re-wrapped", {"wrapper": type(W).__name__})
    mods = [torch.nn.Linear(3, 1), torch.nn.Sequential(torch.nn.Linear(2, 4), torch.nn.ReLU(), torch.nn.Linear(4, 3))]
    for mod in mods:
        run.ok(kind="dispatch")
        with warnings.catch_warnings():
            warnings.simplefilter("ignore")
            r = validate_model_function(mod)
        if not isinstance(r, TorchWrapper):
            run.violation("dispatch-torch", f"torch module mapped to {type(r).__name__}", {"module": repr(mod)})
        else:
            d_in = 3 if isinstance(mod, torch.nn.Linear) else 2
            x = {f"f{j}": float(j + 1) for j in range(d_in)}
            with torch.no_grad():
                ref = mod(torch.tensor([list(x.values())], dtype=torch.float32)).numpy()
            got = r(x)
            run.ok(kind="torch-module")
            if not eq_out(got, canon_row(ref)):
                run.violation("size-one-output-label" if ref.size == 1 else "vector-output-form",
                              f"torch module output {ref!r} wrapped as {got!r}", {"module": repr(mod)})
            run.nontriv(("torch-module", d_in))
    from sklearn.utils import all_estimators
    n_sk = 0
    for name, cls in all_estimators():
        try:
            est = cls()
        except Exception:
            continue
        for meth in ("predict", "predict_proba", "decision_function", "predict_log_proba"):
            try:
                fn = getattr(est, meth)
            except Exception:
                continue
            with warnings.catch_warnings():
                warnings.simplefilter("ignore")
                r = validate_model_function(fn)
            run.ok(kind="dispatch")
            n_sk += 1
            if not isinstance(r, SklearnWrapper):
                run.violation("dispatch-sklearn", f"sklearn {name}.{meth} mapped to {type(r).__name__}", {"estimator": name, "method": meth})
            run.nontriv(("sk", name, meth))
    run.count("sklearn-bound-methods", n_sk)
    import importlib
    import inspect
    import pkgutil
    import river
    n_rv, seen_cls = 0, set()
    for mi in pkgutil.walk_packages(river.__path__, "river."):
        parts = mi.name.split(".")[1:]
        if any(p.startswith("_") or p in ("test", "tests", "conftest", "datasets") or p.startswith("test_") for p in parts):
            continue
        try:
            mod = importlib.import_module(mi.name)
        except Exception:
            continue
        for n, cls in inspect.getmembers(mod, inspect.isclass):
            if cls in seen_cls or not cls.__module__.startswith("river."):
                continue
            seen_cls.add(cls)
            if not any(hasattr(cls, m) for m in ("predict_one", "predict_proba_one")) or inspect.isabstract(cls):
                continue
            try:
                obj = cls()
            except Exception:
                continue
            for meth in ("predict_one", "predict_proba_one"):
                fn = getattr(obj, meth, None)
                if fn is None or not hasattr(fn, "__self__"):
                    continue
                with warnings.catch_warnings():
                    warnings.simplefilter("ignore")
                    r = validate_model_function(fn)
                run.ok(kind="dispatch")
                n_rv += 1
                if not isinstance(r, RiverWrapper):
                    run.violation("dispatch-river", f"river {cls.__module__}.{n}.{meth} mapped to {type(r).__name__}", {"class": n, "method": meth})
                run.nontriv(("rv", n, meth))
    run.count("river-bound-methods", n_rv)
    # ---------------- real fitted models end to end: dict vs list agreement and canonical forms
    from sklearn.tree import DecisionTreeClassifier, DecisionTreeRegressor
    from sklearn.linear_model import LinearRegression, LogisticRegression
    from sklearn.neighbors import KNeighborsClassifier
    rs = np.random.RandomState(run.shard_seed % 2 ** 31)
    X = rs.normal(size=(60, 3))
    yc = (X[:, 0] + X[:, 1] > 0).astype(int) + (X[:, 2] > 1).astype(int)
    yr = X @ np.array([1.0, -2.0, 0.5])
    models = [(DecisionTreeClassifier(max_depth=3, random_state=0), yc), (DecisionTreeRegressor(max_depth=3, random_state=0), yr),
              (LinearRegression(), yr), (LogisticRegression(), yc), (KNeighborsClassifier(3), yc)]
    try:        # river's sklearn ADAPTERS: real sklearn estimators (fit / predict on arrays) that live in the river package
        from river import compat as _compat, linear_model as _rlm
        models.append((_compat.River2SKLRegressor(_rlm.LinearRegression()), yr))
        models.append((_compat.River2SKLClassifier(_rlm.LogisticRegression()), (yc > 0).astype(int)))
    except Exception as ex:
        run.other_error(f"river-compat:{type(ex).__name__}")
    if thorough:
        for name, cls in all_estimators(type_filter=["classifier", "regressor"]):
            try:
                models.append((cls(), yc if hasattr(cls, "predict_proba") or "Classifier" in name else yr))
            except Exception:
                pass
    for est, y in models:
        try:
            with warnings.catch_warnings():
                warnings.simplefilter("ignore")
                est.fit(X, y)
        except Exception:
            continue
        for meth in ("predict", "predict_proba"):
            if not hasattr(est, meth):
                continue
            with warnings.catch_warnings():
                warnings.simplefilter("ignore")
                w = validate_model_function(getattr(est, meth))
                xs = [{j: float(v) for j, v in enumerate(row)} for row in X[:5]]
                try:
                    raw = getattr(est, meth)(X[:5])
                    raw1 = [getattr(est, meth)(X[i:i + 1]) for i in range(5)]   # the model's own one-row outputs
                except Exception as ex:
                    run.other_error(f"real-model:{type(est).__name__}.{meth}:{type(ex).__name__}")
                    continue
                try:
                    batch = w(xs)
                    singles = [w(xi) for xi in xs]
                except Exception as ex:       # the estimator itself predicts these rows: the wrapped call must, too
                    run.ok(kind="real-model")
                    run.violation("batch-input-raises", f"{type(est).__module__}.{type(est).__name__}.{meth} predicts the rows itself, but the function returned by "
                                                        f"validate_model_function ({type(w).__name__}) raised {type(ex).__name__}: {ex}",
                                  {"estimator": type(est).__name__, "method": meth})
                    continue
            run.ok(kind="real-model")
            exps = [canon_row(raw[i]) for i in range(5)]
            replay = {"estimator": type(est).__name__, "method": meth, "xs": xs}
            try:
                good_b = all(eq_out(a, b) for a, b in zip(batch, exps))
                good_s = all(eq_out(a, canon_row(b)) for a, b in zip(singles, raw1))
            except Exception:
                good_b = good_s = False
            if raw.dtype.kind in "fiub":
                if not good_b:
                    run.violation("size-one-output-label" if len(exps[0]) == 1 else "batch-row-form",
                                  f"{type(est).__name__}.{meth}: batch {batch!r} vs canonical {exps!r}", replay)
                if not good_s:
                    run.violation("size-one-output-label" if len(exps[0]) == 1 else "vector-output-form",
                                  f"{type(est).__name__}.{meth}: one-at-a-time {singles!r} vs canonical {exps!r}", replay)
                run.nontriv(("real", type(est).__name__, meth))
