"""C15 - explainer call contract: defaults, loss signature, feature names, evaluation budget, storage update order."""
import copy
import itertools
import random

import numpy as np

from ..probes import Clock, Models, Losses, make_names, InjectedFault
from ..harness import storage_proxy

SHARDS = {"quick": 1, "thorough": 8}
REPS = {"quick": 3, "thorough": 12}


def build(cls_name, model, loss, names, overrides, clock, rnd):
    from ixai.explainer import IncrementalSage, IncrementalPFI, BatchSage, IntervalSage
    from ixai.storage import UniformReservoirStorage, GeometricReservoirStorage, IntervalStorage, BatchStorage
    kw = {}
    st = None
    if overrides:
        if "n_inner" in overrides:
            kw["n_inner_samples"] = overrides["n_inner"]
        if cls_name in ("IncrementalSage", "IncrementalPFI"):
            if "alpha" in overrides:
                kw["smoothing_alpha"] = overrides["alpha"]
            if "dyn" in overrides:
                kw["dynamic_setting"] = overrides["dyn"]
            if overrides.get("storage"):
                st = storage_proxy(rnd.choice([UniformReservoirStorage, GeometricReservoirStorage]), clock)(
                    size=rnd.choice([1, 3, 50]), store_targets=rnd.random() < .5)
                kw["storage"] = st
                if overrides.get("own_imputer") == "separate":
                    # the imputer draws from a background data set the USER maintains (another storage object); the explainer's own
                    # storage is still the one explain_one updates, exactly once per call
                    from ixai.imputer import MarginalImputer
                    bg = BatchStorage(store_targets=False)
                    for r_ in range(4):
                        bg.update({f: 777000 + 1000 * r_ + j for j, f in enumerate(names)})
                    kw["imputer"] = MarginalImputer(model, "joint", bg)
                    overrides["_imputer_obj"] = kw["imputer"]
                    overrides["_background"] = bg
                elif overrides.get("own_imputer"):
                    from ixai.imputer import MarginalImputer
                    kw["imputer"] = MarginalImputer(model, "joint", st)
                    overrides["_imputer_obj"] = kw["imputer"]
        elif cls_name == "IntervalSage":
            kw["interval_length"] = overrides.get("interval", 2)
            kw["storage_length"] = overrides.get("window", 3)
            if overrides.get("storage"):          # the user's own window storage: every call stores the observation exactly once
                st = storage_proxy(IntervalStorage, clock)(size=kw["storage_length"], store_targets=True)
                kw["storage"] = st
        elif cls_name == "BatchSage" and overrides.get("storage"):
            st = storage_proxy(BatchStorage, clock)(store_targets=True)
            kw["storage"] = st
    if cls_name == "IncrementalSage":
        if overrides and overrides.get("lbib"):
            kw["loss_bigger_is_better"] = True      # a documented option: only the reported model / marginal loss are shifted
        return IncrementalSage(model, loss, names, **kw), st
    if cls_name == "IncrementalPFI":
        return IncrementalPFI(model, loss, names, **kw), st
    if cls_name == "BatchSage":
        return BatchSage(model, names, loss, **kw), st
    return IntervalSage(model, names, loss, **kw), st


def main(run):
    from ixai.explainer import IncrementalSage, IncrementalPFI
    run.rule = ("offline contract checker over the event log of generated call histories for the product explainer class "
                "{IncrementalPFI, IncrementalSage, BatchSage, IntervalSage} x {required arguments only, overrides} x feature-name "
                "types {str,int,float,mixed,spelled (str names spelling numeric names),odd} x d in 1..5 x n_inner (constructor and per-call override) x update_storage flags; the "
                "loss is a plain two-positional-parameter function; checks: construction, result keys == given names, seen_samples "
                "+1, model evaluations 0 / 1+d*n_inner, x / y / feature-name list unchanged (deep snapshots), storage updated "
                "exactly once with (x,y) after the last model/loss event or not at all, imputed sets have full size (an observation "
                "is never its own background), return value == importance_values; evaluations = explain_one calls judged; "
                "non-trivial = distinct (class, names type, d, n_inner, defaults/overrides, call flags) with >= 1 explained call")
    run.assumptions = ["feature names pairwise distinct under ==", "keys that compare and hash equal to the given names are accepted (NumPy scalars)"]
    run.require("ixai/explainer/base.py:BaseIncrementalFeatureImportance.__init__", "ixai/explainer/pfi.py:IncrementalPFI.explain_one",
                "ixai/explainer/sage/incremental.py:IncrementalSage.explain_one", "ixai/explainer/sage/batch.py:BatchSage.explain_many",
                "ixai/explainer/sage/interval.py:IntervalSage.explain_one")
    rnd = random.Random(run.shard_seed)
    classes = ["IncrementalPFI", "IncrementalSage", "BatchSage", "IntervalSage"]
    for rep in range(REPS[run.tier]):
        for cls_name, nk, d, use_over in itertools.product(classes, ["str", "int", "float", "mixed", "spelled", "odd"], [1, 2, 3, 5], [False, True]):
            names = make_names(nk, d)
            container = rnd.choice(["list", "list", "tuple"])        # feature names are a Sequence: tuples are as good as lists
            if container == "tuple":
                names = tuple(names)
            names_snapshot = copy.deepcopy(names)
            clock = Clock()
            model = Models(rnd.choice(["scalar", "multi", "linear"]), names, exact=False, clock=clock)
            inner = Losses("sq", exact=False, clock=clock)

            def loss(y_true, y_pred):          # the documented positional signature, nothing more
                return inner(y_true, y_pred)
            overrides = None
            if use_over:
                overrides = {"n_inner": rnd.choice([1, 2, 3]), "alpha": rnd.choice([0.001, 0.3, 1.0]), "dyn": rnd.random() < .5,
                             "storage": True, "interval": rnd.choice([1, 2, 3]), "window": rnd.choice([2, 4]),
                             "own_imputer": rnd.choice([False, True, "separate"]), "lbib": rnd.random() < .35}
            seed = rnd.randrange(2 ** 31)
            random.seed(seed)
            np.random.seed(seed)
            tag = f"{cls_name} names={nk} d={d} {'overrides=' + repr(overrides) if use_over else 'required-arguments-only'}"
            replay = {"class": cls_name, "names": names, "overrides": overrides, "seed": seed}
            run.ok(kind="construct")
            try:
                e, st = build(cls_name, model, loss, names, overrides, clock, rnd)
            except Exception as ex:
                run.violation(f"construct{'-defaults' if not use_over else ''}:{cls_name}",
                              f"{tag}: constructor raised {type(ex).__name__}: {ex}", replay)
                continue
            n_ctor = (overrides or {}).get("n_inner", 1)
            incremental = cls_name.startswith("Incremental")
            explained = 0
            manual_first = incremental and st is not None and rnd.random() < 0.4    # user-managed storage: first call flagged off
            ncalls = 7 if rnd.random() > 0.03 else 300          # a few long histories (counters beyond 256, default storage filling up)
            if incremental and d == 5 and nk == "str" and not use_over and rep == 0:
                ncalls = 1500       # one long history per incremental explainer in every run (events that occur once in hundreds of calls)
                run.count("long-histories")
            for t in range(ncalls):
                x = {f: 1000 * (t + 1) + j for j, f in enumerate(names)}
                if t < 3 and cls_name.startswith("Incremental") and model.kind != "linear" and rep % 2 == 1:
                    x["optional_input"] = 500 + t       # an unexplained model input that later observations no longer carry
                y = float(rnd.randrange(-5, 6))
                if t == 3 and use_over and overrides.get("_imputer_obj") is not None:
                    # another explainer is built around the SAME imputer object (no storage argument): must not disturb this one
                    try:
                        other_cls = IncrementalPFI if cls_name == "IncrementalSage" else IncrementalSage
                        other_cls(model, loss, list(names), imputer=overrides["_imputer_obj"], smoothing_alpha=0.5)
                    except Exception as ex:
                        run.other_error(f"second-explainer-construct:{type(ex).__name__}")
                x0, y0 = copy.deepcopy(x), copy.deepcopy(y)
                kw = {}
                if incremental and t in (2, 5) and rnd.random() < 0.25:
                    # the user re-assigns the public attribute between two observations: later calls use the new value
                    n_ctor = rnd.choice([1, 2, 3])
                    e.n_inner_samples = n_ctor
                    run.count("attribute-reassigned-histories")
                if t > 0 and rnd.random() < 0.3:
                    kw["n_inner_samples"] = rnd.choice([1, 2, 4])
                if incremental and ((t > 0 and rnd.random() < 0.3) or (t == 0 and manual_first)):
                    kw["update_storage"] = False
                if not incremental:
                    kw["verbose"] = False
                n_used = kw.get("n_inner_samples") or n_ctor
                if incremental and t in (1, 3) and rnd.random() < 0.2:
                    # HISTORY: one call fails inside a callback (a transient model / loss fault), the caller catches it and carries on;
                    # every later call is judged like any other (budget, storage update, keys)
                    clock.fail_at_next = rnd.randrange(1, 2 + d * n_used)
                    clock.reset()
                    try:
                        e.explain_one(copy.deepcopy(x), y, **kw)
                    except InjectedFault:
                        run.count("failed-call-histories")
                    except Exception as ex:
                        run.violation(f"call-raises:{cls_name}", f"{tag} call {t}: injected fault surfaced as {type(ex).__name__}: {ex}", {**replay, "call": t})
                        break
                    clock.fail_at = None
                seen0 = getattr(e, "seen_samples", None)
                clock.reset()
                creplay = {**replay, "call": t, "kwargs": kw}
                try:
                    ret = e.explain_one(x, y, **kw)
                except Exception as ex:
                    run.ok(kind="call")
                    msg = f"{tag} call {t}: explain_one raised {type(ex).__name__}: {ex}"
                    if isinstance(ex, TypeError) and "y_prediction" in str(ex) or (isinstance(ex, TypeError) and "keyword" in str(ex)):
                        run.violation(f"loss-signature:{cls_name}", msg, creplay)
                    elif isinstance(ex, KeyError):
                        run.violation(f"feature-names:{nk}:{cls_name}", msg, creplay)
                    else:
                        run.violation(f"call-raises:{cls_name}", msg, creplay)
                    break
                log = list(clock.log)
                run.ok(kind="call")
                bad = []
                if x != x0 or y != y0:
                    bad.append(("mutation", f"x or y modified: {x0!r} -> {x!r}"))
                if names != names_snapshot or list(e.feature_names) != list(names_snapshot):
                    bad.append(("mutation", f"feature-name list modified: {names!r}"))
                if not (ret == e.importance_values):
                    bad.append(("return-value", "returned dict differs from importance_values"))
                models = [ev for ev in log if ev[0] == "model"]
                first_incr = incremental and t == 0
                if not first_incr:
                    keys = list(ret.keys())
                    if len(keys) != d or set(keys) != set(names) or any(k not in ret for k in names):
                        bad.append(("result-keys", f"keys {keys!r} for names {names!r}"))
                    else:
                        explained += 1
                if incremental:
                    if e.seen_samples != seen0 + 1:
                        bad.append(("seen-samples", f"seen_samples {seen0} -> {e.seen_samples}"))
                    want = 0 if t == 0 else 1 + d * n_used
                    if len(models) != want:
                        bad.append(("evaluation-budget", f"{len(models)} model evaluations, expected {want} (d={d}, n_inner={n_used})"))
                    elif t > 0:
                        if not (models[0][1] == x):
                            bad.append(("evaluation-budget", "first evaluation is not on the instance itself"))
                        for g in range(d):
                            for ev in models[1 + g * n_used:1 + (g + 1) * n_used]:
                                nd = sum(1 for f in names if ev[1][f] != x[f])
                                want_nd = 1 if cls_name == "IncrementalPFI" else d - 1 - g
                                if nd != want_nd:
                                    bad.append(("own-background", f"group {g}: input differs from x on {nd} features, expected {want_nd} "
                                                                  f"(an observation must never be its own background)"))
                    if st is not None:
                        ups = [i for i, ev in enumerate(log) if ev[0] == "storage.update"]
                        if kw.get("update_storage", True):
                            others = [i for i, ev in enumerate(log) if ev[0] in ("model", "loss")]
                            if len(ups) != 1 or log[ups[0]][1] != x0 or log[ups[0]][2] != y or (others and ups[0] < max(others)):
                                bad.append(("storage-update-order", f"storage update events at {ups} of {len(log)} log entries"))
                        elif ups:
                            bad.append(("storage-update-order", "storage updated although update_storage=False"))
                        if overrides and overrides.get("_background") is not None and len(overrides["_background"]) != 4:
                            bad.append(("storage-update-order", f"the user's background storage behind the imputer now holds {len(overrides['_background'])} rows (explain_one "
                                                                f"updates the explainer's own storage, nothing else)"))
                if t == 0 and manual_first and not bad:
                    e.update_storage(x, y)          # the user seeds the storage through the public method instead
                if not incremental and st is not None:
                    ups = [ev for ev in log if ev[0] == "storage.update"]
                    if len(ups) != 1 or ups[0][1] != x0 or ups[0][2] != y:
                        bad.append(("storage-update-order", f"{cls_name}.explain_one: {len(ups)} storage update events (the observation is stored exactly once per call)"))
                for mech, msg in bad:
                    run.violation(f"{mech}:{cls_name}" if mech in ("result-keys",) else mech, f"{tag} call {t}: {msg}", creplay)
                if bad:
                    break
                if explained:
                    run.nontriv((cls_name, nk, d, n_used, use_over, tuple(sorted(kw))))
            if len(run.samples) < 3 and explained and nk == "mixed" and d >= 3:
                run.sample({"class": cls_name, "names": names, "overrides": overrides, "calls": 7, "last_result": ret})
