"""C15 - explainer call contract: defaults, loss signature, feature names, evaluation budget, storage update order."""
import copy
import functools
import itertools
import random

import numpy as np

from ..probes import Clock, Models, Losses, make_names, InjectedFault
from ..harness import storage_proxy

SHARDS = {"quick": 1, "thorough": 8}
REPS = {"quick": 3, "thorough": 12}


# invocations of the user's loss during the current call that were NOT the documented loss(y_true, y_pred_dict): (number of positional
# arguments or None when the shape cannot tell, keyword names, further parameters that received something, y_true, type of y_pred).
# Module level: survives any copy of the callable.  _LOSS_STATE = [number of invocations, y_true to expect or _ANY]
_LOSS_CALLS = []
_ANY = object()
_LOSS_STATE = [0, _ANY]

LOSS_SHAPES = ["two-positional", "positional-only", "defaulted-third", "defaulted-many", "keyword-only", "all-defaulted", "star-args",
               "star-args-kwargs", "partial-keyword", "partial-positional", "callable-object", "bound-method"]
STREAMS = ["unique"] * 5 + ["runs"] * 3 + ["same-object", "mutated-object"]


def make_loss(shape, inner):
    """A user loss of the given SHAPE around the pure loss `inner`.  All of them follow the documented positional contract
    loss(y_true, y_pred_dict); what they own beyond it (defaulted / keyword-only options, *args, bound leading arguments, self) is
    the user's business and must never receive anything from the explainer."""
    def note(y_true, y_pred, npos=None, kwnames=(), extras=()):
        _LOSS_STATE[0] += 1
        want_y = _LOSS_STATE[1]
        fine = (npos is None or npos == 2) and not kwnames and isinstance(y_pred, dict) and (want_y is _ANY or y_true == want_y)
        for n, v, dflt in extras:
            if v is not dflt and not (type(v) is type(dflt) and v == dflt):
                fine = False
        if not fine and len(_LOSS_CALLS) < 5:
            got = [f"{n}={v!r}" for n, v, dflt in extras if not (v is dflt or (type(v) is type(dflt) and v == dflt))]
            _LOSS_CALLS.append((npos, tuple(kwnames), got, y_true, type(y_pred).__name__))
        return inner(y_true, y_pred)

    if shape == "two-positional":
        def loss(y_true, y_pred):          # the documented positional signature, nothing more
            return note(y_true, y_pred)
        return loss
    if shape == "positional-only":
        def loss(y_true, y_pred, /):
            return note(y_true, y_pred, 2)
        return loss
    if shape == "defaulted-third":
        def loss(y_true, y_pred, squared=True):
            return note(y_true, y_pred, None, (), [("squared", squared, True)])
        return loss
    if shape == "defaulted-many":
        def loss(y_true, y_pred, eps=1e-15, sample_weight=None, delta=1.0, multioutput="uniform_average"):
            return note(y_true, y_pred, None, (), [("eps", eps, 1e-15), ("sample_weight", sample_weight, None), ("delta", delta, 1.0),
                                                   ("multioutput", multioutput, "uniform_average")])
        return loss
    if shape == "keyword-only":
        def loss(y_true, y_pred, *, squared=True, **options):
            return note(y_true, y_pred, None, tuple(options), [("squared", squared, True)])
        return loss
    if shape == "all-defaulted":
        def loss(y_true=0.0, y_pred=None, normalize=False):
            return note(y_true, y_pred, None, (), [("normalize", normalize, False)])
        return loss
    if shape == "star-args":
        return lambda *args: note(args[0] if args else None, args[1] if len(args) > 1 else None, len(args))
    if shape == "star-args-kwargs":
        def loss(*args, **kwargs):
            vals = list(args) + list(kwargs.values())
            return note(vals[0] if vals else None, vals[1] if len(vals) > 1 else None, len(args), tuple(kwargs))
        return loss
    if shape == "partial-keyword":
        def scaled_loss(y_true, y_pred, weight=None, scale=2.0, *rest):
            return note(y_true, y_pred, 2 + (weight is not None) + len(rest), (), [("weight", weight, None), ("scale", scale, 1.0)])
        return functools.partial(scaled_loss, scale=1.0)
    if shape == "partial-positional":
        cfg = {"reduction": "sum"}

        def configured_loss(config, y_true, y_pred, weight=None, *rest):
            return note(y_true, y_pred, 2 + (weight is not None) + len(rest), (), [("config", config, cfg), ("weight", weight, None)])
        return functools.partial(configured_loss, cfg)

    class UserLoss:
        def __call__(self, y_true, y_pred, sample_weight=None):
            return note(y_true, y_pred, None, (), [("sample_weight", sample_weight, None)])

        def evaluate(self, y_true, y_pred, reduction="sum", *rest):
            return note(y_true, y_pred, 2 + (reduction != "sum") + len(rest), (), [("reduction", reduction, "sum")])
    if shape == "callable-object":
        return UserLoss()
    if shape == "bound-method":
        return UserLoss().evaluate
    raise ValueError(shape)


def build(cls_name, model, loss, names, overrides, clock, rnd):
    from ixai.explainer import IncrementalSage, IncrementalPFI, BatchSage, IntervalSage
    from ixai.storage import UniformReservoirStorage, GeometricReservoirStorage, IntervalStorage, BatchStorage
    kw = {}
    st = None
    if overrides:
        if "n_inner" in overrides:
            kw["n_inner_samples"] = overrides["n_inner"]
        if cls_name in ("IncrementalSage", "IncrementalPFI"):
            if "alpha" in overrides:
                kw["smoothing_alpha"] = overrides["alpha"]
            if "dyn" in overrides:
                kw["dynamic_setting"] = overrides["dyn"]
            if overrides.get("storage"):
                st = storage_proxy(rnd.choice([UniformReservoirStorage, GeometricReservoirStorage]), clock)(
                    size=rnd.choice([1, 3, 50]), store_targets=rnd.random() < .5)
                kw["storage"] = st
                if overrides.get("own_imputer") == "separate":
                    # the imputer draws from a background data set the USER maintains (another storage object); the explainer's own
                    # storage is still the one explain_one updates, exactly once per call
                    from ixai.imputer import MarginalImputer
                    bg = BatchStorage(store_targets=False)
                    for r_ in range(4):
                        bg.update({f: 777000 + 1000 * r_ + j for j, f in enumerate(names)})
                    kw["imputer"] = MarginalImputer(model, "joint", bg)
                    overrides["_imputer_obj"] = kw["imputer"]
                    overrides["_background"] = bg
                elif overrides.get("own_imputer"):
                    from ixai.imputer import MarginalImputer
                    kw["imputer"] = MarginalImputer(model, "joint", st)
                    overrides["_imputer_obj"] = kw["imputer"]
        elif cls_name == "IntervalSage":
            kw["interval_length"] = overrides.get("interval", 2)
            kw["storage_length"] = overrides.get("window", 3)
            if overrides.get("storage"):          # the user's own window storage: every call stores the observation exactly once
                st = storage_proxy(IntervalStorage, clock)(size=kw["storage_length"], store_targets=True)
                kw["storage"] = st
        elif cls_name == "BatchSage" and overrides.get("storage"):
            st = storage_proxy(BatchStorage, clock)(store_targets=True)
            kw["storage"] = st
    if cls_name == "IncrementalSage":
        if overrides and overrides.get("lbib"):
            kw["loss_bigger_is_better"] = True      # a documented option: only the reported model / marginal loss are shifted
        return IncrementalSage(model, loss, names, **kw), st
    if cls_name == "IncrementalPFI":
        return IncrementalPFI(model, loss, names, **kw), st
    if cls_name == "BatchSage":
        return BatchSage(model, names, loss, **kw), st
    return IntervalSage(model, names, loss, **kw), st


def main(run):
    from ixai.explainer import IncrementalSage, IncrementalPFI
    run.rule = ("offline contract checker over the event log of generated call histories for the product explainer class "
                "{IncrementalPFI, IncrementalSage, BatchSage, IntervalSage} x {required arguments only, overrides} x feature-name "
                "types {str,int,float,mixed,spelled (str names spelling numeric names),odd} x d in 1..5 x n_inner (constructor and per-call override) x update_storage flags; the "
                "loss follows the documented positional signature in one of the shapes {two-positional, positional-only, defaulted third / many further "
                "defaulted parameters, keyword-only options, all-defaulted, *args lambda, *args/**kwargs, functools.partial (keyword / leading positional "
                "bound), callable object, bound method} and records what it receives (always exactly (y_true, y_pred_dict), nothing for a further "
                "parameter); streams {unique values, runs of equal-valued observations as distinct dicts, the same dict object handed in again, one dict "
                "overwritten in place} with manual update_storage() calls before / after explain_one; checks: construction, result keys == given names, seen_samples "
                "+1, model evaluations 0 / 1+d*n_inner, x / y / feature-name list unchanged (deep snapshots), storage updated "
                "exactly once with (x,y) after the last model/loss event or not at all, imputed sets have full size (an observation "
                "is never its own background), return value == importance_values; evaluations = explain_one calls judged; "
                "non-trivial = distinct (class, names type, d, n_inner, defaults/overrides, call flags) with >= 1 explained call")
    run.assumptions = ["feature names pairwise distinct under ==", "keys that compare and hash equal to the given names are accepted (NumPy scalars)"]
    run.require_count("loss-calls-judged", "repeated-observation-calls", "equal-to-last-stored-calls", "same-object-restored-calls",
                      "manual-update-storage-calls", *["loss-shape:" + s_ for s_ in LOSS_SHAPES], *["stream:" + s_ for s_ in set(STREAMS)])
    run.require("ixai/explainer/base.py:BaseIncrementalFeatureImportance.__init__", "ixai/explainer/pfi.py:IncrementalPFI.explain_one",
                "ixai/explainer/sage/incremental.py:IncrementalSage.explain_one", "ixai/explainer/sage/batch.py:BatchSage.explain_many",
                "ixai/explainer/sage/interval.py:IntervalSage.explain_one")
    rnd = random.Random(run.shard_seed)
    rnd2 = random.Random(run.shard_seed + 15015)     # loss shapes, stream kinds and manual storage calls: a generator of their own
    classes = ["IncrementalPFI", "IncrementalSage", "BatchSage", "IntervalSage"]
    for rep in range(REPS[run.tier]):
        for cls_name, nk, d, use_over in itertools.product(classes, ["str", "int", "float", "mixed", "spelled", "odd"], [1, 2, 3, 5], [False, True]):
            names = make_names(nk, d)
            container = rnd.choice(["list", "list", "tuple"])        # feature names are a Sequence: tuples are as good as lists
            if container == "tuple":
                names = tuple(names)
            names_snapshot = copy.deepcopy(names)
            clock = Clock()
            model = Models(rnd.choice(["scalar", "multi", "linear"]), names, exact=False, clock=clock)
            inner = Losses("sq", exact=False, clock=clock)
            shape = rnd2.choice(LOSS_SHAPES)
            loss = make_loss(shape, inner)
            run.count("loss-shape:" + shape)
            stream = rnd2.choice(STREAMS)
            run.count("stream:" + stream)
            palette = rnd2.choice([[0, 1], [0, 1, 2], [0.0, 0.5], None])     # binary / categorical codes / two sensor levels / fresh values
            prev_x = prev_y = None
            last_stored = None          # (x snapshot, y) of the storage update event seen last (explain_one or manual)
            overrides = None
            if use_over:
                overrides = {"n_inner": rnd.choice([1, 2, 3]), "alpha": rnd.choice([0.001, 0.3, 1.0]), "dyn": rnd.random() < .5,
                             "storage": True, "interval": rnd.choice([1, 2, 3]), "window": rnd.choice([2, 4]),
                             "own_imputer": rnd.choice([False, True, "separate"]), "lbib": rnd.random() < .35}
            seed = rnd.randrange(2 ** 31)
            random.seed(seed)
            np.random.seed(seed)
            tag = f"{cls_name} names={nk} d={d} loss={shape} stream={stream} {'overrides=' + repr(overrides) if use_over else 'required-arguments-only'}"
            replay = {"class": cls_name, "names": names, "overrides": overrides, "seed": seed, "loss_shape": shape, "stream": stream, "palette": palette}
            run.ok(kind="construct")
            try:
                e, st = build(cls_name, model, loss, names, overrides, clock, rnd)
            except Exception as ex:
                run.violation(f"construct{'-defaults' if not use_over else ''}:{cls_name}",
                              f"{tag}: constructor raised {type(ex).__name__}: {ex}", replay)
                continue
            n_ctor = (overrides or {}).get("n_inner", 1)
            incremental = cls_name.startswith("Incremental")
            explained = 0
            manual_first = incremental and st is not None and rnd.random() < 0.4    # user-managed storage: first call flagged off
            ncalls = 7 if rnd.random() > 0.03 else 300          # a few long histories (counters beyond 256, default storage filling up)
            if incremental and d == 5 and nk == "str" and not use_over and rep == 0:
                ncalls = 1500       # one long history per incremental explainer in every run (events that occur once in hundreds of calls)
                run.count("long-histories")
            for t in range(ncalls):
                x = {f: 1000 * (t + 1) + j for j, f in enumerate(names)}
                if t < 3 and cls_name.startswith("Incremental") and model.kind != "linear" and rep % 2 == 1:
                    x["optional_input"] = 500 + t       # an unexplained model input that later observations no longer carry
                y = float(rnd.randrange(-5, 6))
                repeated = False
                if stream != "unique":
                    # low-cardinality / constant stretches of a stream: runs of consecutive observations with EQUAL x and y.  "runs":
                    # every observation is a dict object of its own; "same-object": the caller hands the very same dict object in
                    # again during a run; "mutated-object": the caller keeps ONE dict and overwrites its values for every observation
                    if t > 0 and rnd2.random() < 0.45:
                        repeated = True
                        x, y = (dict(prev_x) if stream == "runs" else prev_x), prev_y
                    elif stream == "mutated-object" and t > 0:
                        fresh = dict(x)
                        x = prev_x
                        x.clear()
                        x.update(fresh)
                    elif palette is not None:
                        x = {f: rnd2.choice(palette) for f in x}
                        y = float(rnd2.randrange(0, 2))
                    prev_x, prev_y = x, y
                    if repeated:
                        run.count("repeated-observation-calls")
                if t == 3 and use_over and overrides.get("_imputer_obj") is not None:
                    # another explainer is built around the SAME imputer object (no storage argument): must not disturb this one
                    try:
                        other_cls = IncrementalPFI if cls_name == "IncrementalSage" else IncrementalSage
                        other_cls(model, loss, list(names), imputer=overrides["_imputer_obj"], smoothing_alpha=0.5)
                    except Exception as ex:
                        run.other_error(f"second-explainer-construct:{type(ex).__name__}")
                x0, y0 = copy.deepcopy(x), copy.deepcopy(y)
                kw = {}
                if incremental and t in (2, 5) and rnd.random() < 0.25:
                    # the user re-assigns the public attribute between two observations: later calls use the new value
                    n_ctor = rnd.choice([1, 2, 3])
                    e.n_inner_samples = n_ctor
                    run.count("attribute-reassigned-histories")
                if t > 0 and rnd.random() < 0.3:
                    kw["n_inner_samples"] = rnd.choice([1, 2, 4])
                if incremental and ((t > 0 and rnd.random() < 0.3) or (t == 0 and manual_first)):
                    kw["update_storage"] = False
                if not incremental:
                    kw["verbose"] = False
                n_used = kw.get("n_inner_samples") or n_ctor
                if incremental and t in (1, 3) and rnd.random() < 0.2:
                    # HISTORY: one call fails inside a callback (a transient model / loss fault), the caller catches it and carries on;
                    # every later call is judged like any other (budget, storage update, keys)
                    clock.fail_at_next = rnd.randrange(1, 2 + d * n_used)
                    clock.reset()
                    try:
                        e.explain_one(copy.deepcopy(x), y, **kw)
                    except InjectedFault:
                        run.count("failed-call-histories")
                    except Exception as ex:
                        run.violation(f"call-raises:{cls_name}", f"{tag} call {t}: injected fault surfaced as {type(ex).__name__}: {ex}", {**replay, "call": t})
                        break
                    clock.fail_at = None
                manual_before = False
                if incremental and st is not None and t > 0 and kw.get("update_storage", True) and rnd2.random() < 0.08:
                    # the user stores the observation through the public method AND explains it with the default flag afterwards:
                    # explain_one still hands (x, y) to the storage exactly once (the observation is in its own background by the
                    # user's choice then: the own-background count below only bounds the differing features)
                    e.update_storage(x, y)
                    manual_before = True
                    last_stored = (copy.deepcopy(x), y)
                    run.count("manual-update-storage-calls")
                seen0 = getattr(e, "seen_samples", None)
                clock.reset()
                del _LOSS_CALLS[:]
                _LOSS_STATE[:] = [0, y0 if incremental else _ANY]     # the batch explainers evaluate the loss on the stored observations' labels
                creplay = {**replay, "call": t, "kwargs": kw}
                try:
                    ret = e.explain_one(x, y, **kw)
                except Exception as ex:
                    run.ok(kind="call")
                    msg = f"{tag} call {t}: explain_one raised {type(ex).__name__}: {ex}"
                    if isinstance(ex, TypeError) and "y_prediction" in str(ex) or (isinstance(ex, TypeError) and "keyword" in str(ex)):
                        run.violation(f"loss-signature:{cls_name}", msg, creplay)
                    elif isinstance(ex, KeyError):
                        run.violation(f"feature-names:{nk}:{cls_name}", msg, creplay)
                    else:
                        run.violation(f"call-raises:{cls_name}", msg, creplay)
                    break
                log = list(clock.log)
                run.ok(kind="call")
                bad = []
                # the loss is called as loss(y_true, y_pred_dict): two positional arguments, no keywords, nothing for any further
                # (defaulted / keyword-only / variadic) parameter the user's callable owns
                run.count("loss-calls-judged", _LOSS_STATE[0])
                for npos, kwnames, got, y_true, ptype in _LOSS_CALLS[:1]:
                    bad.append(("loss-signature", f"loss ({shape}) called with {npos if npos is not None else '?'} positional arguments, keywords "
                                                  f"{list(kwnames)}, further parameters received {got}, y_true={y_true!r} (observation's y {y0!r}), y_pred "
                                                  f"of type {ptype} (documented call: loss(y_true, y_pred_dict))"))
                if x != x0 or y != y0:
                    bad.append(("mutation", f"x or y modified: {x0!r} -> {x!r}"))
                if names != names_snapshot or list(e.feature_names) != list(names_snapshot):
                    bad.append(("mutation", f"feature-name list modified: {names!r}"))
                if not (ret == e.importance_values):
                    bad.append(("return-value", "returned dict differs from importance_values"))
                models = [ev for ev in log if ev[0] == "model"]
                first_incr = incremental and t == 0
                if not first_incr:
                    keys = list(ret.keys())
                    if len(keys) != d or set(keys) != set(names) or any(k not in ret for k in names):
                        bad.append(("result-keys", f"keys {keys!r} for names {names!r}"))
                    else:
                        explained += 1
                if incremental:
                    if e.seen_samples != seen0 + 1:
                        bad.append(("seen-samples", f"seen_samples {seen0} -> {e.seen_samples}"))
                    want = 0 if t == 0 else 1 + d * n_used
                    if len(models) != want:
                        bad.append(("evaluation-budget", f"{len(models)} model evaluations, expected {want} (d={d}, n_inner={n_used})"))
                    elif t > 0:
                        if not (models[0][1] == x):
                            bad.append(("evaluation-budget", "first evaluation is not on the instance itself"))
                        for g in range(d):
                            for ev in models[1 + g * n_used:1 + (g + 1) * n_used]:
                                nd = sum(1 for f in names if ev[1][f] != x[f])
                                want_nd = 1 if cls_name == "IncrementalPFI" else d - 1 - g
                                # equal-valued observations / an observation the user stored beforehand: a background value may
                                # coincide with the instance's own value, the features NOT imputed still have to be the instance's
                                if nd > want_nd if (stream != "unique" or manual_before) else nd != want_nd:
                                    bad.append(("own-background", f"group {g}: input differs from x on {nd} features, expected {want_nd} "
                                                                  f"(an observation must never be its own background)"))
                    if st is not None:
                        ups = [i for i, ev in enumerate(log) if ev[0] == "storage.update"]
                        if kw.get("update_storage", True) and last_stored is not None and last_stored == (x0, y0):
                            run.count("equal-to-last-stored-calls")      # a NEW observation that equals the one stored last: stored all the same
                            if repeated and stream != "runs":
                                run.count("same-object-restored-calls")
                        if ups:
                            last_stored = (x0, y0)
                        if kw.get("update_storage", True):
                            others = [i for i, ev in enumerate(log) if ev[0] in ("model", "loss")]
                            if len(ups) != 1 or log[ups[0]][1] != x0 or log[ups[0]][2] != y or (others and ups[0] < max(others)):
                                bad.append(("storage-update-order", f"storage update events at {ups} of {len(log)} log entries"))
                        elif ups:
                            bad.append(("storage-update-order", "storage updated although update_storage=False"))
                        if overrides and overrides.get("_background") is not None and len(overrides["_background"]) != 4:
                            bad.append(("storage-update-order", f"the user's background storage behind the imputer now holds {len(overrides['_background'])} rows (explain_one "
                                                                f"updates the explainer's own storage, nothing else)"))
                if t == 0 and manual_first and not bad:
                    e.update_storage(x, y)          # the user seeds the storage through the public method instead
                    last_stored = (x0, y0)
                elif incremental and st is not None and t > 0 and not kw.get("update_storage", True) and not bad and rnd2.random() < 0.5:
                    e.update_storage(x, y)          # explained without storing, stored by the user afterwards (user-managed storage)
                    last_stored = (x0, y0)
                    run.count("manual-update-storage-calls")
                if not incremental and st is not None:
                    ups = [ev for ev in log if ev[0] == "storage.update"]
                    if len(ups) != 1 or ups[0][1] != x0 or ups[0][2] != y:
                        bad.append(("storage-update-order", f"{cls_name}.explain_one: {len(ups)} storage update events (the observation is stored exactly once per call)"))
                for mech, msg in bad:
                    run.violation(f"{mech}:{cls_name}" if mech in ("result-keys",) else mech, f"{tag} call {t}: {msg}", creplay)
                if bad:
                    break
                if explained:
                    run.nontriv((cls_name, nk, d, n_used, use_over, tuple(sorted(kw))))
            if len(run.samples) < 3 and explained and nk == "mixed" and d >= 3:
                run.sample({"class": cls_name, "names": names, "overrides": overrides, "calls": 7, "last_result": ret})
