"""C16 - normalised importances and confidence bounds are well-formed for all values."""
import math
import random
from fractions import Fraction

import numpy as np

from ..qnum import Q, tofrac
from ..harness import Scenario, gen_cfg

SHARDS = {"quick": 1, "thorough": 8}
N_STREAM = {"quick": 250, "thorough": 1200}
N_DICT = {"quick": 600, "thorough": 3000}

TYPES = {"int": int, "float": float, "np64": np.float64, "np32": np.float32, "npint": np.int64, "Q": Q}


def finite(v):
    try:
        return math.isfinite(float(v))
    except Exception:
        return False


class ScriptedLoss:
    """Loss whose successive return values are scripted so that one SAGE call yields chosen contributions."""

    def __init__(self):
        self.queue = []

    def __call__(self, y, p):
        return self.queue.pop(0)


def drive_sage(values, typ, seed):
    """IncrementalSage (dynamic, alpha=1) whose importance_values become exactly `values` (as a multiset, typed)."""
    from ixai.explainer import IncrementalSage
    from ixai.storage import BatchStorage
    conv = TYPES[typ]
    d = len(values)
    names = [f"f{j}" for j in range(d)]
    loss = ScriptedLoss()
    random.seed(seed)
    np.random.seed(seed)
    st = BatchStorage(store_targets=False)
    e = IncrementalSage(lambda x: {"output": 0.0}, loss, names, smoothing_alpha=1 if typ in ("int", "npint", "Q") else 1.0,
                        storage=st, dynamic_setting=True)
    e.explain_one({n: 0 for n in names}, 0)
    acc = 0
    seq = [conv(0), conv(0)]                  # model loss, loss of the marginal prediction
    for v in values:
        acc = acc + v
        seq.append(conv(-acc) if typ != "Q" else Q(-acc))
    loss.queue = seq
    e.explain_one({n: 1 for n in names}, 0)
    return e, names


def check_normalized(run, e, raw, tag, replay, fp_events):
    exact = all(isinstance(v, Q) for v in raw.values())
    fr = {k: tofrac(v) for k, v in raw.items()}
    for mode in ("sum", "delta"):
        del fp_events[:]
        with np.errstate(all="call"):
            try:
                norm = e.get_normalized_importance_values(mode=mode)
            except Exception as ex:
                run.ok(kind="normalize")
                run.violation("normalize-raises", f"{tag} mode={mode}: {type(ex).__name__}: {ex}", replay)
                continue
        run.ok(kind="normalize-" + mode)
        factor = sum(fr.values()) if mode == "sum" else max(fr.values()) - min(fr.values())
        vals = list(norm.values())
        if set(norm.keys()) != set(raw.keys()):
            run.violation("normalize-keys", f"{tag} mode={mode}: keys {list(norm)!r}", replay)
            continue
        if factor == 0:
            run.count("zero-normaliser-cases")
            if not all(finite(v) and v == 0 for v in vals) or fp_events:
                run.violation("zero-normaliser", f"{tag} mode={mode}: raw {raw!r} has a zero normaliser; got {norm!r}, FP events {fp_events}", replay)
            continue
        want = {k: v / factor for k, v in fr.items()}
        in_range = all(abs(w) < Fraction(10) ** 300 for w in want.values())
        if not in_range:
            continue
        if not all(finite(v) for v in vals):
            run.violation("non-finite", f"{tag} mode={mode}: raw {raw!r} -> {norm!r}", replay)
            continue
        is32 = any(isinstance(v, np.float32) for v in raw.values())
        tol = 0 if exact else (1e-5 if is32 else 1e-12)
        good = True
        for k in raw:
            g, w = norm[k], want[k]
            good = good and ((tofrac(g) == w) if exact else abs(float(g) - float(w)) <= tol * max(1.0, abs(float(w))))
        tot = sum(tofrac(v) for v in vals)
        rng = max(tofrac(v) for v in vals) - min(tofrac(v) for v in vals)
        # the float factor itself may be a rounded sum: clauses are judged against the exact quotient with tolerance
        if mode == "sum":
            good = good and ((tot == 1) if exact else abs(float(tot) - 1) <= max(tol, 1e-9) * len(vals))
        else:
            good = good and ((rng == 1) if exact else abs(float(rng) - 1) <= max(tol, 1e-9))
        if not good or fp_events:
            run.violation("normalize-" + mode, f"{tag} mode={mode}: raw {raw!r} -> {norm!r} (expected {[float(w) for w in want.values()]}); FP events {fp_events}", replay)


def main(run):
    from ixai.explainer import IncrementalPFI
    run.rule = ("(i) explainers whose raw importance values are DRIVEN to chosen dictionaries (IncrementalSage with alpha=1 and a "
                "scripted loss; IncrementalPFI on constant / ignoring models): all-zero, zero-sum sign-mixed, single feature, equal "
                "values, random, in value types {int,float,np.float64,np.float32,np.int64,Q}; get_normalized_importance_values "
                "('sum','delta') judged against exact quotients: ratios, sum 1 / range 1, zero normaliser -> all 0.0, never NaN/inf, "
                "NumPy FP-exception recorder silent; (ii) every state reached by PFI/SAGE streams: variances >= 0 and "
                "get_confidence_bound(delta) for delta near {1e-6,.01,.5,1} given as float / np.float32 / np.float16 / Fraction / int / np.int64 / bool, equal to (1-alpha)^t + sqrt(var*alpha/((2-alpha)*delta)), "
                "finite, >= 0 (> 0 when (1-alpha)^t is a normal float), non-increasing in delta; evaluations = oracle evaluations; "
                "non-trivial = distinct (type, mode-relevant shape of the dictionary) and distinct reached states")
    run.assumptions = ["non-empty importance dictionary (>= 1 explained observation)",
                       "a quotient whose exact value exceeds the float range is outside the statement"]
    run.require("ixai/explainer/base.py:BaseIncrementalFeatureImportance.get_normalized_importance_values",
                "ixai/explainer/base.py:BaseIncrementalFeatureImportance.get_confidence_bound")
    rnd = random.Random(run.shard_seed)
    fp_events = []
    np.seterrcall(lambda kind, flag: fp_events.append(kind))
    # ---------------- (i) driven dictionaries
    for i in range(N_DICT[run.tier]):
        typ = list(TYPES)[i % len(TYPES)]
        d = rnd.choice([1, 2, 3, 4, 6])
        shape = rnd.choice(["all-zero", "zero-sum", "equal", "random", "random", "one-nonzero", "negative", "tiny-sum"])
        if shape == "all-zero":
            vals = [0] * d
        elif shape == "zero-sum":
            vals = [rnd.randrange(-9, 10) for _ in range(d - 1)]
            vals.append(-sum(vals))
        elif shape == "equal":
            vals = [rnd.randrange(-9, 10)] * d
        elif shape == "one-nonzero":
            vals = [0] * d
            vals[rnd.randrange(d)] = rnd.randrange(1, 9) * rnd.choice([1, -1])
        elif shape == "negative":
            vals = [-rnd.randrange(1, 50) for _ in range(d)]
        elif shape == "tiny-sum":
            vals = [rnd.randrange(-3, 4) for _ in range(d)]
        else:
            vals = [rnd.randrange(-50, 51) for _ in range(d)]
        if typ in ("float", "np64", "np32") and shape in ("random", "negative"):
            vals = [v / 4 for v in vals]         # quarter steps stay exact in float32
        if typ in ("float", "np64", "np32", "Q") and rnd.random() < 0.4:
            scl = rnd.choice([2.0 ** -40, 2.0 ** -70, 2.0 ** 50] + ([2.0 ** -1040, 2.0 ** -1060] if typ in ("float", "np64", "Q") else []))
            # tiny (down to subnormal) / huge absolute scale, exact power of two
            vals = [(Q(v) * Q(scl) if typ == "Q" else v * scl) for v in vals]
            shape += "-scaled"
        seed = rnd.randrange(2 ** 31)
        replay = {"driver": "IncrementalSage alpha=1 scripted loss", "type": typ, "values": vals, "seed": seed}
        try:
            e, names = drive_sage(vals, typ, seed)
        except Exception as ex:
            run.other_error(f"C15:drive:{type(ex).__name__}:{str(ex)[:40]}")
            continue
        raw = e.importance_values
        if sorted(float(tofrac(v)) for v in raw.values()) != sorted(float(tofrac(v)) for v in vals):
            run.other_error("driver-did-not-reach-target")      # harness problem, not a verdict
            continue
        run.see("driven", (typ, shape, d))
        run.nontriv(("dict", typ, shape, d))
        check_normalized(run, e, raw, f"type={typ} {shape} d={d}", replay, fp_events)
        if len(run.samples) < 2 and shape == "zero-sum" and d >= 3:
            run.sample({**replay, "raw_importance": raw, "normalized_sum": e.get_normalized_importance_values("sum"),
                        "normalized_delta": e.get_normalized_importance_values("delta")})
    # PFI on models that make every contribution exactly zero (np.mean gives NumPy scalars)
    for d in (1, 2, 4):
        for kind in ("constant", "ignore"):
            names = [f"f{j}" for j in range(d)]
            random.seed(d)
            e = IncrementalPFI((lambda x: {"output": 1.0}) if kind == "constant" else (lambda x: {"output": float(x["f0"] * 0)}),
                               lambda y, p: (y - p["output"]) ** 2, names, smoothing_alpha=0.5, n_inner_samples=2)
            for t in range(4):
                e.explain_one({n: float(t + j) for j, n in enumerate(names)}, 1.0)
            check_normalized(run, e, e.importance_values, f"IncrementalPFI {kind} model d={d}",
                             {"driver": "IncrementalPFI", "model": kind, "d": d}, fp_events)
            run.nontriv(("pfi-zero", kind, d))
    # ---------------- (ii) reachable states
    for i in range(N_STREAM[run.tier]):
        exact = i % 4 == 0
        cfg = gen_cfg(rnd, rnd.choice(["sage", "pfi"]), exact)
        if i in (7, 19):         # more than a thousand calls on one explainer, the bounds read after every call (call counters 256, 512, 1024)
            from ..harness import make_long
            make_long(cfg, rnd, 1100)
        seed = rnd.randrange(2 ** 31)
        try:
            sc = Scenario(cfg, seed, record_imputer=False)
        except Exception as ex:
            run.other_error(f"C15:construct:{type(ex).__name__}")
            continue
        alpha = float(tofrac(cfg["alpha"]))
        for t in range(cfg["steps"]):
            try:
                sc.step(**sc.call_kwargs())      # incl. calls with update_storage=False / a per-call n_inner_samples
            except KeyError as ex:
                run.other_error(f"C15:step:{type(ex).__name__}")
                break
            if t == 0:
                continue
            if i % 3 == 2 and t != cfg["steps"] - 1 and (t % 9) not in (1, 2) and t != 3:
                # HISTORY: on these streams the bounds / normalised views are read only now and then (at t = 1, 2, 3, 10, 11, 19, ...
                # and after the last call): what a read returns must not depend on when the previous read happened
                run.count("steps-without-any-read")
                continue
            e = sc.e
            replay = {"cfg": cfg, "seed": seed, "step": t}
            # reads are pure: asking for normalised values / bounds / losses any number of times, in any order, changes nothing
            snap0 = sc.snapshot()
            readers = [lambda: e.get_confidence_bound(0.5), lambda: e.get_normalized_importance_values("sum"),
                       lambda: e.get_normalized_importance_values("delta"), lambda: e.importance_values, lambda: e.variances,
                       lambda: e.get_confidence_bound(0.01), lambda: getattr(e, "explained_loss", None), lambda: repr(e)]
            try:
                for _ in range(rnd.randrange(0, 5)):
                    rnd.choice(readers)()
            except Exception as ex:
                run.violation("read-raises", f"cfg {cfg} step {t}: a read-only call raised {type(ex).__name__}: {ex}", replay)
                break
            run.ok(kind="read-purity")
            if not (sc.snapshot() == snap0):
                run.violation("read-not-pure", f"cfg {cfg} step {t}: reading normalised values / confidence bounds changed the estimates", replay)
                break
            var = e.variances
            run.ok(kind="variances")
            if not all(v >= 0 for v in var.values()):
                run.violation("negative-variance", f"cfg {cfg} step {t}: variances {var!r}", replay)
                break
            prev = None
            okb = True
            # delta in several numeric forms (narrow NumPy floats, rationals, integers): the bound is the formula's value at that number
            from fractions import Fraction as _Fr
            deltas = [rnd.choice([1e-6, np.float32(1e-6), np.float64(1e-6)]), rnd.choice([0.01, np.float32(0.01), np.float16(0.01), _Fr(1, 100)]),
                      rnd.choice([0.5, np.float32(0.5), np.float16(0.3), _Fr(1, 3)]), rnd.choice([1, 1.0, np.int64(1), np.float32(1.0), True])]
            for delta in deltas:
                try:
                    cb = e.get_confidence_bound(delta)
                except Exception as ex:
                    run.violation("confidence-bound-raises", f"cfg {cfg} step {t} delta={delta}: {type(ex).__name__}: {ex}", replay)
                    okb = False
                    break
                run.ok(kind="confidence-bound")
                for n in sc.names:
                    base = (1 - alpha) ** e.seen_samples
                    want = base + math.sqrt(float(var[n]) * alpha / ((2 - alpha) * float(delta)))
                    g = cb[n]
                    if not (finite(g) and float(g) >= 0 and abs(float(g) - want) <= 1e-12 * max(1.0, abs(want))
                            and (float(g) > 0 or base < 2.3e-308)):
                        run.violation("confidence-bound-formula", f"cfg {cfg} step {t} delta={delta} feature {n!r}: bound {g!r}, formula {want!r}", replay)
                        okb = False
                    if prev is not None and float(g) > float(prev[n]) * (1 + 1e-15):
                        run.violation("confidence-bound-monotone", f"cfg {cfg} step {t}: bound increases with delta for {n!r}", replay)
                        okb = False
                if set(cb.keys()) != set(sc.names):
                    run.violation("confidence-bound-keys", f"keys {list(cb)!r}", replay)
                    okb = False
                prev = cb
                if not okb:
                    break
            if not okb:
                break
            if any(v != 0 for v in var.values()):
                run.nontriv(("state", run.shard[0], i, t))
        if len(run.samples) < 3 and cfg["d"] >= 2 and not exact and t >= 3:
            run.sample({"cfg": cfg, "seed": seed, "steps": t + 1, "variances": sc.e.variances,
                        "confidence_bound_delta_0.01": sc.e.get_confidence_bound(0.01)})
