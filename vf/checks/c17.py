"""C17 - a failing callback leaves the explainer's estimates untouched (fault enumeration at every callback position)."""
import copy
import random

import numpy as np

from ..harness import Scenario, gen_cfg, storage_proxy, ImputerProxy
from ..probes import Clock, Models, Losses, InjectedFault, make_names
from ..qnum import Q

SHARDS = {"quick": 4, "thorough": 16}
N_CFG = {"quick": 5, "thorough": 40}          # per shard, incremental explainers
N_BATCH = {"quick": 3, "thorough": 20}
STREAM = {"quick": 7, "thorough": 14}
TIMEOUT = {"quick": 1200, "thorough": 10800}


def rng_state():
    return random.getstate(), np.random.get_state()


def rng_restore(s):
    random.setstate(s[0])
    np.random.set_state(s[1])


def same(a, b):
    """Deep equality that also handles NumPy array values."""
    if isinstance(a, dict) and isinstance(b, dict):
        return a.keys() == b.keys() and all(same(a[k], b[k]) for k in a)
    if isinstance(a, np.ndarray) or isinstance(b, np.ndarray):
        try:
            return bool(np.array_equal(np.asarray(a), np.asarray(b)))
        except Exception:
            return False
    r = (a == b)
    return bool(r) if not isinstance(r, np.ndarray) else bool(r.all())


def c01_ok(e):
    tot = 0
    for v in e.importance_values.values():
        tot = tot + v
    return tot == e.explained_loss


class BatchScenario:
    """BatchSage / IntervalSage with all four callback kinds behind one failpoint clock."""

    def __init__(self, kind, seed, rnd, reservoir=None):
        from ixai.explainer import BatchSage, IntervalSage
        from ixai.storage import BatchStorage, IntervalStorage, UniformReservoirStorage, GeometricReservoirStorage
        from ixai.imputer import MarginalImputer
        random.seed(seed)
        np.random.seed(seed)
        self.kind = kind
        self.clock = Clock()
        d = rnd.choice([1, 2, 3])
        self.names = make_names("str", d)
        self.model = Models(rnd.choice(["scalar", "multi"]), self.names, exact=True, clock=self.clock)
        self.loss = Losses("hash", exact=True, clock=self.clock)
        self.original = kind == "batch" and rnd.random() < .4
        n_inner = rnd.choice([1, 2])
        if kind == "batch" and reservoir:     # BatchSage on a reservoir storage (a legal BaseStorage): used by C07's explainer-driven storages
            cls_ = UniformReservoirStorage if reservoir == "uniform" else GeometricReservoirStorage
            st = storage_proxy(cls_, self.clock, True)(size=3, store_targets=True)
            self.e = BatchSage(self.model, self.names, self.loss, n_inner_samples=n_inner, storage=st,
                               imputer=ImputerProxy(MarginalImputer(self.model, "joint", st), self.clock))
            self.kw = {"original_sage": False, "verbose": False}
        elif kind == "batch":
            st = storage_proxy(BatchStorage, self.clock, True)(store_targets=True)
            self.e = BatchSage(self.model, self.names, self.loss, n_inner_samples=n_inner, storage=st,
                               imputer=ImputerProxy(MarginalImputer(self.model, "joint", st), self.clock))
            self.kw = {"original_sage": self.original, "verbose": False}
        else:
            win = 3 if seed % 3 else 16
            st = storage_proxy(IntervalStorage, self.clock, True)(size=win, store_targets=True)
            self.e = IntervalSage(self.model, self.names, self.loss, n_inner_samples=n_inner, interval_length=rnd.choice([1, 2]),
                                  storage_length=win, storage=st,
                                  imputer=ImputerProxy(MarginalImputer(self.model, "joint", st), self.clock))
            self.kw = {"verbose": False}
        self.t = 0
        self.storage = st
        self.capacity = 3 if reservoir else (win if kind != "batch" else 10 ** 9)
        self.cfg = {"explainer": kind, "d": d, "n_inner": n_inner, "original": self.original, "exact": True}

    def next_obs(self):
        self.t += 1
        return {f: 1000 * self.t + j for j, f in enumerate(self.names)}, self.t % 5 - 2

    def step(self, x, y):
        self.clock.reset()
        return self.e.explain_one(x, y, **self.kw)

    def snapshot(self):
        return {"importance": dict(self.e.importance_values)}


def call(sc, x, y, kw):
    if isinstance(sc, BatchScenario):
        return sc.step(x, y)
    return sc.step(x, y, **kw)[2]


def main(run):
    run.level = "fault_enumeration"
    run.rule = ("for IncrementalPFI, IncrementalSage (cfg product, exact rationals), BatchSage.explain_one (both modes) and "
                "IntervalSage.explain_one: for EVERY explain_one call of a stream the number K of callback invocations (model, loss, "
                "imputer.impute, storage.update, storage.get_data) of the fault-free call is measured and, for every k <= K, the call "
                "is re-executed from the identical pre-state (deepcopy + generator states) with the k-th invocation raising "
                "InjectedFault; asserted: the same exception object propagates, the public snapshot (importance_values, variances, "
                "marginal_loss, model_loss, marginal_prediction incl. key sets) is equal before and after; injected exception types cycle "
                "through 20 classes (custom, ValueError, KeyError, IndexError, RuntimeError, TypeError, ZeroDivisionError, StopIteration, ...); after "
                "resuming the stream for 3 calls the C01 identity holds exactly after each and the estimates equal those of a twin that "
                "never saw the failed call (same storage content and generator state), i.e. no hidden estimate state changed; plus random multi-fault schedules (up to 3 faults, "
                "consecutive faulty calls); evaluations = injected faults judged; non-trivial = distinct (config, call, position, "
                "callback site) with a non-empty pre-state")
    run.assumptions = ["single-fault space of each generated (config, stream) is enumerated completely; configs and streams are sampled",
                       "the explainer object is deep-copyable (used to restore the identical pre-state)"]
    run.require("ixai/explainer/sage/incremental.py:IncrementalSage.explain_one", "ixai/explainer/pfi.py:IncrementalPFI.explain_one",
                "ixai/explainer/sage/batch.py:BatchSage.explain_one", "ixai/explainer/sage/interval.py:IntervalSage.explain_one")
    rnd = random.Random(run.shard_seed)
    scenarios = []
    for i in range(N_CFG[run.tier]):
        for expl in ("sage", "pfi"):
            cfg = gen_cfg(rnd, expl, exact=True)
            cfg["d"] = min(cfg["d"], 4)
            cfg["n_inner"] = min(cfg["n_inner"], 3)
            cfg["steps"] = STREAM[run.tier]
            cfg["manual_updates"] = False       # (the twin comparison needs both copies to see the same stream)
            scenarios.append(("incr", cfg, rnd.randrange(2 ** 31)))
        # float-mode SAGE whose model returns NumPy arrays as dict values (mutable estimates: in-place updates must not leak)
        cfg = gen_cfg(rnd, "sage", exact=False)
        cfg.update(d=min(cfg["d"], 3), n_inner=min(cfg["n_inner"], 2), steps=STREAM[run.tier], model="array1", loss="sqf",
                   dyn=(i % 2 == 0), imputer=rnd.choice(["joint", "product", "custom"]), manual_updates=False)
        if cfg["storage"][0] == "tree":       # (storage contents are compared through get_data(), which a TreeStorage does not offer)
            cfg["storage"] = ("interval", 3, True)
        scenarios.append(("incr", cfg, rnd.randrange(2 ** 31)))
    if run.shard[0] % 4 in (0, 1):
        # one LONG stream per run (hundreds of calls on one explainer): faults are enumerated only at calls around 40 (= 20 / alpha), around
        # 256 and at a few random calls; every other call runs normally.  Bounded journals, periodic checkpoints and the like live here.
        from ..harness import make_long
        from ..qnum import Q as _Q
        cfg = gen_cfg(rnd, "sage" if run.shard[0] % 4 == 0 else "pfi", exact=True)
        make_long(cfg, rnd, 300)
        cfg.update(dyn=True, alpha=_Q(1, 2), model=rnd.choice(["multi", "grow"]), loss="hash", manual_updates=False, checkpoint=False,
                   frozen_first=0, _long=True)
        if cfg["imputer"] in ("background",):
            cfg["imputer"] = "joint"
        scenarios.append(("incr", cfg, rnd.randrange(2 ** 31)))
    for i in range(N_BATCH[run.tier]):
        for kind in ("batch", "interval"):
            scenarios.append((kind, None, rnd.randrange(2 ** 31)))
    for what, cfg, seed in scenarios:
        try:
            sc = Scenario(cfg, seed, count_get=True) if what == "incr" else BatchScenario(what, seed, rnd)
        except Exception as ex:
            run.other_error(f"C15:construct:{type(ex).__name__}")
            continue
        cfgd = sc.cfg
        is_sage = cfgd["explainer"] == "sage" and cfgd.get("exact", True)
        run.count("configs")
        nsteps = STREAM[run.tier] if what == "incr" else (5 if seed % 3 else 14)     # some batch / interval runs over >= 10 stored samples
        long_run = what == "incr" and cfgd.get("_long")
        if long_run:
            nsteps = cfgd["steps"]
            probe = set(range(38, 46)) | set(range(253, 260)) | set(rnd.sample(range(2, nsteps), 5))
            run.count("long-stream-configs")
        stop = False
        for t in range(nsteps):
            x, y = sc.next_obs()
            kw = sc.call_kwargs() if what == "incr" else {}
            pre = rng_state()
            if long_run and t not in probe:
                call(sc, x, y, kw)
                continue
            # fault-free twin: count callbacks
            twin = copy.deepcopy(sc)
            call(twin, x, y, kw)
            K = twin.clock.callbacks
            sites = [e for e in twin.clock.log]
            before = sc.snapshot()
            positions = range(1, K + 1) if K <= 80 else sorted(rnd.sample(range(1, K + 1), 50) + [1, K])
            for k in positions:
                b = copy.deepcopy(sc)
                rng_restore(pre)
                b.clock.fail_at_next = k
                b.clock.fault_salt = t + seed
                b.clock.interrupts = True        # KeyboardInterrupt / CancelledError / SystemExit raised by a callback are faults, too
                raised = None
                try:
                    call(b, x, y, kw)
                except InjectedFault as ex:
                    raised = ex
                except Exception as ex:
                    raised = ex
                except BaseException as ex:
                    if not getattr(ex, "injected", False):
                        raise                    # (a real interrupt or the harness' own time guard)
                    raised = ex
                b.clock.fail_at = None
                site = b.clock.log[-1][1] if b.clock.log and b.clock.log[-1][0] == "fault" else "?"
                run.ok(kind="fault@" + site)
                replay = {"cfg": cfgd, "seed": seed, "call": t, "fault_position": k, "callbacks_in_call": K, "site": site, "kwargs": kw}
                tag = f"{cfgd['explainer']} call {t} fault at callback #{k}/{K} ({site})"
                replay["exception_type"] = type(b.clock.last_fault).__name__
                if raised is None or raised is not b.clock.last_fault:
                    run.violation(f"exception-not-propagated:{cfgd['explainer']}",
                                  f"{tag}: the callback raised {b.clock.last_fault!r} but explain_one "
                                  f"{'returned normally' if raised is None else 'raised ' + repr(raised)}", replay)
                    stop = True
                    break
                run.see("exception-types", type(raised).__name__)
                after = b.snapshot()
                if not same(after, before):
                    diff = [key for key in before if not same(before[key], after.get(key))]
                    where = "storage" if site.startswith("storage.update") else "callback"
                    run.violation(f"estimates-changed:{cfgd['explainer']}:{where}",
                                  f"{tag}: {diff} changed, e.g. {diff[0]}: {before[diff[0]]!r} -> {after[diff[0]]!r}", replay)
                    stop = True
                if t > 0 or what != "incr":
                    run.nontriv((cfgd["explainer"], seed, t, k, site))
                # resume the stream: (i) C01 identity (SAGE, exact); (ii) the trajectory must equal that of a twin that never
                # saw the failed call (same storage content, same generator state): hidden estimate state untouched as well
                if what == "incr":        # (also after a fault in the very first call: the stream must be resumable)
                    twin2 = copy.deepcopy(sc)
                    same_storage = twin2.storage is not None and \
                        [dict(r) for r in twin2.storage.get_data()[0]] == [dict(r) for r in b.storage.get_data()[0]]
                    for r in range(3):
                        if r == 0 and (k + t) % 2 == 0:
                            x2, y2 = x, y                  # the most natural continuation: the failed observation is submitted again
                        else:
                            x2, y2 = b.next_obs()
                            twin2.next_obs()
                        st_rng = rng_state()
                        try:
                            b.step(x2, y2)
                        except Exception as ex:
                            run.violation(f"resume-raises:{cfgd['explainer']}", f"{tag}: resumed call raised {type(ex).__name__}: {ex}", replay)
                            stop = True
                            break
                        if is_sage:
                            run.ok(kind="resumed-c01")
                            if not c01_ok(b.e):
                                run.violation("c01-after-fault", f"{tag}: after resuming {r + 1} calls sum(importance) != explained_loss", replay)
                                stop = True
                                break
                        if same_storage:
                            rng_restore(st_rng)
                            twin2.step(x2, y2)
                            run.ok(kind="resumed-twin")
                            sa, sb = b.snapshot(), twin2.snapshot()
                            if not same(sa, sb):
                                diff = [key for key in sa if not same(sa[key], sb.get(key))]
                                run.violation(f"hidden-state-changed:{cfgd['explainer']}",
                                              f"{tag}: after resuming {r + 1} calls {diff} differ from a twin that never saw the failed call, "
                                              f"e.g. {diff[0]}: {sa[diff[0]]!r} vs {sb[diff[0]]!r}", replay)
                                stop = True
                                break
                        else:
                            run.count("twin-comparison-skipped(storage-differs)")
                if stop:
                    break
            if stop:
                break
            rng_restore(pre)
            call(sc, x, y, kw)
            if len(run.samples) < 3 and t == 2 and K > 6:
                run.sample({"cfg": cfgd, "seed": seed, "call": t, "callbacks_in_fault_free_call": K,
                            "callback_sites_in_order": [s[0] for s in sites][:40], "fault_positions_tried": K})
        # ---- repeated faults
        if what == "incr" and not stop:
            b = copy.deepcopy(sc)
            faults = 0
            for r in range(8):
                x2, y2 = b.next_obs()
                inject = faults < 3 and rnd.random() < 0.5
                snap = b.snapshot()
                b.clock.fail_at_next = rnd.randrange(1, 8) if inject else None
                try:
                    b.step(x2, y2)
                    b.clock.fail_at = None
                except InjectedFault:
                    b.clock.fail_at = None
                    faults += 1
                    run.ok(kind="repeated-fault")
                    if not same(b.snapshot(), snap):
                        run.violation(f"estimates-changed:{cfgd['explainer']}:repeated", f"{cfgd['explainer']} repeated fault #{faults}: estimates changed",
                                      {"cfg": cfgd, "seed": seed})
                        break
                if is_sage and b.e.seen_samples > 1:
                    run.ok(kind="resumed-c01")
                    if not c01_ok(b.e):
                        run.violation("c01-after-fault", f"sage after {faults} faults: sum(importance) != explained_loss", {"cfg": cfgd, "seed": seed})
                        break
    run.exhaustive = False
    run.notes["single_fault_space_enumerated_per_generated_stream"] = True
