"""C18 - results are reproducible from the global random seeds (bit-for-bit differential replay)."""
import collections
import gc
import hashlib
import json
import os
import random
import subprocess
import sys
import time

import numpy as np

SHARDS = {"quick": 1, "thorough": 8}
N_CFG = {"quick": 36, "thorough": 160}
N_SUB = {"quick": 6, "thorough": 24}


def fhex(v):
    try:
        return float(v).hex()
    except Exception:
        return repr(v)


def gen_cfg(rnd, i=0):
    cfg = _gen_cfg(rnd)
    # stratify the fields that gate rarely taken paths (large storages need long streams to fill)
    cfg["size"] = [1, 3, 10, 100][i % 4]
    if cfg["size"] == 100:
        cfg["steps"] = 130
        cfg["storage"] = ["uniform", "geometric", "batch", "interval"][(i // 4) % 4]
        cfg["imputer"] = ["joint", "product", "default-arg"][(i // 4) % 3]
        cfg["explainer"] = ["sage", "pfi", "interval", "sage"][(i // 4) % 4]
    elif i % 12 == 5:       # rarely drawn combination made certain: batch explainer in original mode on a plain storage
        cfg.update(explainer="batch", original_sage=True, storage=["batch", "uniform"][(i // 12) % 2], imputer="joint", steps=15)
    elif i % 12 == 1:       # explain_many over in-memory lists, then explain_one calls
        cfg.update(explainer="batch-many", storage="batch", imputer="joint", steps=12, model=["linear", "antisym", "sparse-labels"][(i // 12) % 3])
    elif i % 12 == 2:       # TreeStorage + TreeImputer on a drifting stream (alternate subtrees in the adaptive trees)
        cfg.update(explainer=["sage", "pfi"][(i // 12) % 2], storage="tree", imputer=["tree-model", "tree-storage"][(i // 24) % 2], steps=520, drift=True,
                   n_inner=[1, 2][(i // 12) % 2], d=3)
    elif i % 12 in (0, 6) and cfg["storage"] != "tree" and not cfg["imputer"].startswith("tree"):
        cfg["cyclic"] = True        # a short recorded list of row objects played round and round (an explained row may already sit in the storage)
    elif i % 12 == 10:      # a river metric object shared by all replays of the process as the loss function
        cfg.update(model="linear", loss_kind="river-shared", metric=["MAE", "MSE", "RMSE"][(i // 12) % 3])
        if cfg["explainer"] in ("batch", "interval"):
            cfg["explainer"] = "pfi"
    elif i % 12 == 8:
        # the USER feeds the storages by hand (explainer.update_storage + the imputer's own reservoir), explanations run with
        # update_storage=False; the imputer samples from a SECOND reservoir object next to the explainer's
        cfg.update(explainer=["sage", "pfi"][(i // 12) % 2], storage=["uniform", "geometric"][(i // 24) % 2], imputer="separate-reservoir",
                   manual_feed=True, size=[3, 2, 5][(i // 12) % 3], steps=40, model="linear")
    elif i % 12 == 9:       # ... and explainers built entirely from library defaults
        cfg.update(explainer=["sage", "pfi"][(i // 12) % 2], storage="library-default", imputer="joint")
    if i % 12 in (4, 7) or (i % 24 == 12):
        # a classifier / cross-entropy pair written with NumPy scalars whose edge cases (log(0), 0/0, exp overflow) go through NumPy's
        # process-wide floating-point error handling: their results are only reproducible if nobody leaves that handling changed
        cfg["model"] = "np-probs"
    return cfg


def _gen_cfg(rnd):
    return {
        "explainer": rnd.choice(["sage", "pfi", "sage", "pfi", "batch", "interval"]),
        "storage": rnd.choice(["uniform", "geometric", "interval", "batch", "tree", "tree", "library-default", "library-default"]),
        "original_sage": rnd.random() < 0.5,
        "imputer": rnd.choice(["joint", "product", "default-arg", "tree-model", "tree-storage"]),
        "size": rnd.choice([1, 3, 10, 100]),
        "d": rnd.choice([2, 3, 4]),
        "n_inner": rnd.choice([1, 2, 3, 3, 5, 7]),
        "dyn": rnd.random() < .5,
        "alpha": rnd.choice([0.001, 0.1, 0.5]),
        "steps": rnd.choice([15, 40, 80]),
        "names": rnd.choice(["str", "int"]),
        "stream_seed": rnd.randrange(2 ** 31),
        "model": rnd.choice(["linear", "linear", "river-labels", "sparse-labels", "river-bound", "antisym"]),
        "tree_seed": rnd.choice([0, 0, 1, 42, rnd.randrange(1000)]),
    }


def junk(rnd):
    """Other library objects created and used BEFORE seeding; GC churn to move object addresses."""
    from ixai.storage import UniformReservoirStorage, GeometricReservoirStorage, TreeStorage, IntervalStorage
    from ixai.utils.tracker import WelfordTracker, MultiValueTracker, ExponentialSmoothingTracker
    from ixai.explainer import IncrementalPFI
    from ixai.utils.wrappers import RiverWrapper
    keep = []
    for i in range(rnd.randrange(3, 30)):
        s = rnd.choice([UniformReservoirStorage(size=3), GeometricReservoirStorage(size=2), IntervalStorage(size=2)])
        for t in range(rnd.randrange(1, 9)):
            s.update({"a": t})
        keep.append(s if i % 2 else None)
        keep.append([object() for _ in range(rnd.randrange(1, 50))])
    ts = TreeStorage(cat_feature_names=["c"], num_feature_names=["n"], grace_period=5, seed=1)
    for t in range(20):
        ts.update({"c": t % 2, "n": float(t)})
    e = IncrementalPFI(lambda x: {"output": x["a"]}, lambda y, p: (y - p["output"]) ** 2, ["a", "b"], smoothing_alpha=0.5)
    for t in range(5):
        e.explain_one({"a": float(t), "b": 1.0}, 0.0)
    MultiValueTracker(WelfordTracker()).update({"x": 1})
    RiverWrapper(lambda x: "lab")({"a": 1})
    interference(rnd)
    # small NumPy arrays of assorted sizes created, filled and dropped: whatever the allocator hands out next is "dirty"
    churn = [np.full(rnd.randrange(1, 9), rnd.uniform(-1e6, 1e6)) for _ in range(rnd.randrange(20, 80))]
    del churn[::2]
    del keep[::2]
    gc.collect()
    time.sleep(0.005)
    return keep


COUNTS = collections.Counter()      # counters of the helper phases, flushed into run.count by main()


def interference(rnd):
    """Unrelated library objects USED in legal ways that reach their edge paths: trackers read before the first update, multi-value
    trackers whose values cancel to exactly zero (Python and NumPy scalars) read normalised, explainers of an untrained / antisymmetric
    model read through every public accessor (also before the first explanation), empty storages."""
    from ixai.storage import UniformReservoirStorage, GeometricReservoirStorage, IntervalStorage, BatchStorage
    from ixai.utils.tracker import WelfordTracker, MultiValueTracker, ExponentialSmoothingTracker, SlidingWindowTracker
    from ixai.explainer import IncrementalPFI, IncrementalSage
    from ixai.utils.wrappers import RiverWrapper

    def attempt(name, f):
        try:
            r = f()
            COUNTS["interference:" + name] += 1
            return r
        except Exception as ex:      # never seen on the pinned tree; kept visible as a counter, judged by nobody
            COUNTS["interference-raised:" + name + ":" + type(ex).__name__] += 1
            return None

    def base_tracker():
        return rnd.choice([WelfordTracker, lambda: ExponentialSmoothingTracker(rnd.choice([0.001, 0.3, 1.0])),
                           lambda: SlidingWindowTracker(rnd.choice([1, 3]))])()

    # trackers read before their first update
    def unread():
        t = base_tracker()
        m = MultiValueTracker(base_tracker())
        return t.get(), t(), repr(t), m.get(), m.get_normalized(), repr(m)
    attempt("tracker-read-before-first-update", unread)

    # multi-value trackers with >= 2 keys whose tracked values cancel exactly
    def zero_sum():
        m = MultiValueTracker(base_tracker())
        k = rnd.choice([2, 2, 3, 4])
        num = rnd.choice([float, np.float64, int, lambda v: np.float32(int(v))])
        for _ in range(rnd.randrange(1, 4)):
            v = float(rnd.randrange(-4, 5)) if rnd.random() < .8 else 0.0
            vals = {"k0": num(v), "k1": num(-v)}
            for j in range(2, k):
                vals["k%d" % j] = num(0.0)
            m.update(vals)
        got = m.get()
        out = m.get_normalized()
        if len(got) >= 2 and sum(got.values()) == 0:
            COUNTS["interference:zero-sum-normalised-read"] += 1
            COUNTS["interference:zero-sum-normalised-read:" + type(next(iter(got.values()))).__name__] += 1
        return out
    attempt("multi-value-tracker", zero_sum)

    def single_key():
        m = MultiValueTracker(base_tracker())
        m.update({"only": rnd.choice([0.0, np.float64(0.0), 2.0])})
        return m.get_normalized()
    attempt("single-key-normalised-read", single_key)

    # explainers over models whose outputs are all zero / cancel, read through every accessor, also before the first explanation
    def explainer_edges():
        names = ["u", "v", "w"][:rnd.choice([2, 3])]
        kind = rnd.choice(["untrained", "antisym", "untrained-numpy", "river-labels"])
        if kind == "untrained":
            mdl = lambda x: {0: 0.0, 1: 0.0}                                             # noqa: E731
        elif kind == "untrained-numpy":
            mdl = lambda x: {"a": np.float64(0.0), "b": np.float64(0.0), "c": np.float64(0.0)}      # noqa: E731
        elif kind == "antisym":
            mdl = lambda x: {"pos": x["u"] - x["v"], "neg": x["v"] - x["u"]}            # noqa: E731
        else:
            mdl = RiverWrapper(lambda x: "hi" if x["u"] > 0 else "lo")
        lss = lambda y, p: float(max(p, key=p.get) != y) if p else 1.0                  # noqa: E731
        cls = rnd.choice([IncrementalSage, IncrementalPFI])
        e = cls(mdl, lss, names, smoothing_alpha=rnd.choice([0.001, 0.1, 1.0]), n_inner_samples=rnd.choice([1, 2]))
        reads = 0
        for t in range(rnd.choice([0, 1, 2, 4]) + 1):
            e.importance_values, e.variances, e.get_normalized_importance_values("sum"), repr(e)
            if t >= 2:  # (bounds and the 'delta' mode index / reduce over the features: defined once a value has been tracked)
                e.get_normalized_importance_values("delta")
                e.get_confidence_bound(rnd.choice([1.0, 0.05, 1e-12]))
            if cls is IncrementalSage:
                e.marginal_loss, e.model_loss, e.explained_loss, e.marginal_prediction
            reads += 1
            e.explain_one({n: float(rnd.randrange(-2, 3)) for n in names}, rnd.choice([0, 1, "pos", "hi"]))
        COUNTS["interference:explainer-edge-reads:" + kind] += reads
    attempt("explainer-of-degenerate-model", explainer_edges)

    def empty_storages():
        for st in (UniformReservoirStorage(size=rnd.choice([1, 3])), GeometricReservoirStorage(size=2, store_targets=rnd.random() < .5),
                   IntervalStorage(size=2), BatchStorage()):
            st.get_data(), len(st), repr(st)
    attempt("empty-storage-reads", empty_storages)


def _hash(o):
    return hashlib.sha256(repr(o).encode()).hexdigest()[:12]


def global_state():
    """Process-global interpreter / NumPy / torch state the library has no business leaving changed (none of it changes while ixai,
    river, sklearn and torch are imported lazily or used on the pinned tree - measured).  Returns (comparable, raw-for-restore)."""
    import decimal
    import locale
    import warnings
    ctx = decimal.getcontext()
    rs = random.getstate()
    ns = np.random.get_state()
    cmp_ = {
        "numpy.geterr()": tuple(sorted(np.geterr().items())),
        "numpy.geterrcall()": repr(np.geterrcall()),
        "numpy.get_printoptions()": tuple(sorted((k, repr(v)) for k, v in np.get_printoptions().items())),
        "decimal.getcontext()": (ctx.prec, ctx.rounding, ctx.Emin, ctx.Emax, ctx.capitals, ctx.clamp,
                                 tuple(sorted(t.__name__ for t, on in ctx.traps.items() if on))),
        "sys.getrecursionlimit()": sys.getrecursionlimit(),
        "sys.getswitchinterval()": sys.getswitchinterval(),
        "type of random's global state": (type(rs).__name__, rs[0], len(rs[1]), type(random._inst).__name__,
                                          getattr(random.random, "__self__", None) is random._inst,
                                          getattr(random.seed, "__self__", None) is random._inst),
        "type of numpy.random's global state": (ns[0], len(ns[1]), type(np.random.mtrand._rand).__name__,
                                                getattr(np.random.seed, "__self__", None) is np.random.mtrand._rand),
        "warnings.filters": tuple(repr(f) for f in warnings.filters),
        "gc": (gc.isenabled(), gc.get_threshold()),
        "os.getcwd()": os.getcwd(),
        "os.environ": _hash(sorted(os.environ.items())),
        "sys.path": tuple(sys.path),
        "locale": locale.setlocale(locale.LC_ALL),
        "sys.stdout/stderr": (id(sys.stdout), id(sys.stderr)),
        "float format": (repr(0.1), "%r" % 1e22, str(np.float64(0.1))),
    }
    raw = {"np.err": np.geterr(), "np.errcall": np.geterrcall(), "np.print": np.get_printoptions(), "decimal": ctx.copy(),
           "reclimit": sys.getrecursionlimit(), "switch": sys.getswitchinterval(), "filters": list(warnings.filters),
           "gc": (gc.isenabled(), gc.get_threshold()), "cwd": os.getcwd()}
    t = sys.modules.get("torch")
    if t is not None:
        try:
            cmp_["torch"] = (str(t.get_default_dtype()), t.is_grad_enabled(), t.are_deterministic_algorithms_enabled(), t.get_num_threads())
            raw["torch"] = (t.get_default_dtype(), t.is_grad_enabled())
        except Exception:
            pass
    return cmp_, raw


def restore_global_state(raw):
    import decimal
    import warnings
    np.seterr(**raw["np.err"])
    np.seterrcall(raw["np.errcall"])
    np.set_printoptions(**raw["np.print"])
    decimal.setcontext(raw["decimal"].copy())
    sys.setrecursionlimit(raw["reclimit"])
    sys.setswitchinterval(raw["switch"])
    if list(warnings.filters) != raw["filters"]:
        warnings.filters[:] = raw["filters"]
        warnings._filters_mutated()
    (gc.enable if raw["gc"][0] else gc.disable)()
    gc.set_threshold(*raw["gc"][1])
    os.chdir(raw["cwd"])
    t = sys.modules.get("torch")
    if t is not None and "torch" in raw:
        t.set_default_dtype(raw["torch"][0])
        t.set_grad_enabled(raw["torch"][1])


class StateWatch:
    """Sanitizer: snapshots the process-global state before and after every library phase.  A lasting change is recorded with the
    phase that caused it; the state is put back only when `restore()` is called (end of a configuration), so that the replays that
    follow the phase still run in - and are judged by the bit-for-bit comparison under - the state the library left behind."""

    def __init__(self):
        self.changes = []
        self.base = global_state()

    def phase(self, label, f, *a, **kw):
        before = global_state()[0]
        try:
            return f(*a, **kw)
        finally:
            after = global_state()[0]
            COUNTS["global-state-snapshots"] += 1
            for k in before:
                if before[k] != after.get(k):
                    self.changes.append({"phase": label, "what": k, "before": repr(before[k])[:300], "after": repr(after.get(k))[:300]})

    def drain(self):
        out, self.changes = self.changes, []
        return out

    def restore(self):
        if global_state()[0] != self.base[0]:
            restore_global_state(self.base[1])
            COUNTS["global-state-restored-after-a-report"] += 1


def scenario(cfg, seed):
    """Seed both global generators, build everything, run the stream; return per-step digests."""
    return list(scenario_gen(cfg, seed))


def interleaved(cfg, seed, cfg_b, seed_b):
    """Scenario A stepped while an independent scenario B (own objects) is constructed and stepped in between; B's use of
    the global generators is undone after each of its steps, so A must be bit-identical to running alone - unless library
    objects share hidden state (class-level / module-level / default-argument containers)."""
    ga = scenario_gen(cfg, seed)
    out = []
    gb = None
    for i, dg in enumerate(ga):
        out.append(dg)
        st = (random.getstate(), np.random.get_state())
        try:
            if gb is None:
                gb = scenario_gen(cfg_b, seed_b)
            next(gb, None)
        finally:
            random.setstate(st[0])
            np.random.set_state(st[1])
    return out


# RiverWrapper over label predictions keeps the set of labels seen so far: its output is not a function of the input alone, so a
# caching twin would be a DIFFERENT model (first version of the identity twin raised a false alarm here; pure models only)
STATEFUL_MODELS = ("river-bound", "river-labels")
_METRICS = {}
_NAMES = {}
_STREAMS = {}     # observation lists are built once and REPLAYED (the same dict objects), like a user's in-memory data set


class riverstub:      # noqa: N801  (lower-case on purpose: validate_model_function looks for 'river' in the owner's type name)
    """A stateless stand-in for a river classifier: `predict_one` returns string labels.  One instance is shared by all
    replays of the process, as a user's trained model object would be."""

    def __init__(self, names, w):
        self.names, self.w = names, w

    def predict_one(self, x):
        s_ = sum(wi * x[n] for wi, n in zip(self.w, self.names))
        return "neg" if s_ < -1 else ("mid" if s_ < 1 else ("pos" if s_ < 3 else "top"))


_STUBS = {}


def scenario_gen(cfg, seed):
    from ixai.explainer import IncrementalSage, IncrementalPFI, BatchSage, IntervalSage
    from ixai.storage import (UniformReservoirStorage, GeometricReservoirStorage, IntervalStorage, BatchStorage, TreeStorage)
    from ixai.imputer import MarginalImputer, DefaultImputer, TreeImputer
    random.seed(seed)
    np.random.seed(seed)
    d = cfg["d"]
    # one feature-name list object per (d, kind), shared by every scenario of the process - like a module-level FEATURES
    # constant in user code: nobody may reorder or otherwise change it
    names = _NAMES.setdefault((d, cfg["names"]), [f"f{j}" for j in range(d)] if cfg["names"] == "str" else list(range(d)))
    w = [1.0, -2.0, 0.5, 3.0][:d]

    def model(x):
        if isinstance(x, dict):
            return {"output": sum(wi * x[n] for wi, n in zip(w, names)) + x[names[0]] * x[names[-1]]}
        return [model(xi) for xi in x]

    def loss(y, p):
        return (y - p["output"]) ** 2
    if cfg.get("model") == "river-labels":
        from ixai.utils.wrappers import RiverWrapper

        def predict_label(x):          # string labels whose set grows with the stream (river classifier style)
            s_ = sum(wi * x[n] for wi, n in zip(w, names))
            return "neg" if s_ < -1 else ("mid" if s_ < 1 else ("pos" if s_ < 3 else "top"))
        rw = RiverWrapper(predict_label)

        def model(x):      # noqa: F811
            return rw(x)

        def loss(y, p):    # noqa: F811
            return sum((1.0 if (lab == "pos") == (y > 0) else 0.0) * v + 0.1 * len(p) for lab, v in p.items())
    if cfg.get("model") == "river-bound":       # a bound method of one long-lived model object, wrapped by the library itself
        stub = _STUBS.setdefault((d, cfg["names"]), riverstub(names, w))
        model = stub.predict_one          # noqa: F811

        def loss(y, p):    # noqa: F811
            return sum((1.0 if (lab == "pos") == (y > 0) else 0.0) * v + 0.1 * len(p) for lab, v in p.items())
    if cfg.get("model") == "antisym":            # two outputs that always cancel (zero-sum normalisation path)

        def model(x):      # noqa: F811
            if not isinstance(x, dict):
                return [model(xi) for xi in x]
            s_ = sum(wi * x[n] for wi, n in zip(w, names))
            return {"pos": s_, "neg": -s_}

        def loss(y, p):    # noqa: F811
            return (y - p.get("pos", 0.0)) ** 2 + 0.5 * (y - p.get("neg", 0.0)) ** 2
    if cfg.get("model") == "sparse-labels":      # top-1 style classifier: every output dict carries only the winning label

        def model(x):      # noqa: F811
            if not isinstance(x, dict):
                return [model(xi) for xi in x]
            s_ = sum(wi * x[n] for wi, n in zip(w, names))
            return {("neg" if s_ < -1 else ("mid" if s_ < 1 else "pos")): 0.5 + abs(s_) % 0.5}

        def loss(y, p):    # noqa: F811
            return sum(v * (1.0 if (lab == "pos") == (y > 0) else 2.0) for lab, v in p.items()) + 0.25 * len(p)
    if cfg.get("model") == "np-probs":
        # scores normalised to probabilities and a capped cross-entropy, written with NumPy scalars the usual way: 0/0 for an all-zero
        # score vector (-> nan -> uniform), exp overflow in the far tail (-> inf -> hard 0/1), log(0) for a hard zero (-> -inf -> cap).
        # All of these warn and carry on under NumPy's default error handling.
        COUNTS["np-sensitive-scenarios-built"] += 1

        def model(x):      # noqa: F811
            if not isinstance(x, dict):
                return [model(xi) for xi in x]
            s_ = np.float64(sum(wi * x[n] for wi, n in zip(w, names)))
            gate = np.float64(x[names[0]])                      # the categorical feature: 0 switches every score off
            a_, b_ = gate * np.maximum(s_, 0.0), gate * np.maximum(-s_, 0.0) + gate / (1.0 + np.exp(-300.0 * (s_ - 1.0)))
            pa = a_ / (a_ + b_)
            if np.isnan(pa):
                pa = np.float64(0.5)
            return {"pos": pa, "neg": 1.0 - pa}

        def loss(y, p):    # noqa: F811
            ce = -np.log(p["pos" if y > 0 else "neg"])
            return ce if np.isfinite(ce) else np.float64(30.0)
    if cfg.get("output_identity") == "shared" and cfg.get("model") not in STATEFUL_MODELS:
        # a lookup-table / caching model: the SAME dict object is handed out for equal inputs (results must not depend on it)
        cache, inner = {}, model

        def model(x):      # noqa: F811
            if not isinstance(x, dict):
                return [model(xi) for xi in x]
            key = tuple(sorted((repr(k), repr(v)) for k, v in x.items()))
            if key not in cache:
                cache[key] = inner(x)
            return cache[key]
    if cfg.get("loss_kind") == "river-shared" and cfg.get("model") == "linear":
        # ONE river metric object (created once per process) serves as the loss of every replay, as a user's module-level METRIC would
        import river.metrics as _rm
        loss = _METRICS.setdefault(cfg.get("metric", "MAE"), getattr(_rm, cfg.get("metric", "MAE"))())     # noqa: F811
    kind, st_kind, imp_kind = cfg["explainer"], cfg["storage"], cfg["imputer"]
    if kind == "interval":
        st_kind = "interval"
    if imp_kind.startswith("tree"):
        st_kind = "tree"
    if st_kind == "tree" and not imp_kind.startswith("tree"):
        imp_kind = "tree-storage"
    if kind in ("batch", "interval") and st_kind == "tree":
        kind = "sage"
    size = cfg["size"]
    if st_kind == "library-default":
        if kind in ("sage", "pfi"):
            st, imp_kind = None, "library-default"
        else:
            st_kind = "batch" if kind == "batch" else "interval"
    if st_kind == "library-default":
        pass
    elif st_kind == "uniform":
        st = UniformReservoirStorage(size=size, store_targets=True)
    elif st_kind == "geometric":
        st = GeometricReservoirStorage(size=size, store_targets=True)
    elif st_kind == "interval":
        st = IntervalStorage(size=max(size, 2), store_targets=True)
    elif st_kind == "batch":
        st = BatchStorage(store_targets=True)
    else:
        st = TreeStorage(cat_feature_names=names[:1], num_feature_names=names[1:], max_depth=3, leaf_reservoir_length=4,
                         grace_period=10, seed=cfg.get("tree_seed", 7))
    st2 = None
    if imp_kind == "library-default":
        imp = None
    elif imp_kind == "separate-reservoir":
        st2 = (GeometricReservoirStorage if st_kind == "uniform" else UniformReservoirStorage)(size=size, store_targets=False)
        imp = MarginalImputer(model, "joint", st2)
    elif imp_kind in ("joint", "product"):
        imp = MarginalImputer(model, imp_kind, st)
    elif imp_kind == "default-arg":
        imp = None if st_kind in ("uniform", "geometric") and kind in ("sage", "pfi") else MarginalImputer(model, "joint", st)
    else:
        imp = TreeImputer(model, st, use_storage=(imp_kind == "tree-storage"), direct_predict_numeric=cfg["n_inner"] == 3)
    if kind == "sage":
        e = IncrementalSage(model, loss, names, smoothing_alpha=cfg["alpha"], storage=st, imputer=imp,
                            n_inner_samples=cfg["n_inner"], dynamic_setting=cfg["dyn"])
    elif kind == "pfi":
        e = IncrementalPFI(model, loss, names, smoothing_alpha=cfg["alpha"], storage=st, imputer=imp,
                           n_inner_samples=cfg["n_inner"], dynamic_setting=cfg["dyn"])
    elif kind == "batch-many":
        # explain_many over the user's in-memory lists on an EMPTY BatchStorage (DefaultImputer needs no background), then explain_one
        # calls: the same list objects are replayed, like a data set kept in memory by the caller
        st = BatchStorage(store_targets=True)
        st_kind = "batch"
        e = BatchSage(model, names, loss, n_inner_samples=cfg["n_inner"], storage=st,
                      imputer=DefaultImputer(model, {n: 0.25 * (j + 1) for j, n in enumerate(names)}))
    elif kind == "batch":
        e = BatchSage(model, names, loss, n_inner_samples=cfg["n_inner"], storage=st, imputer=imp)
    else:
        e = IntervalSage(model, names, loss, n_inner_samples=cfg["n_inner"], interval_length=3, storage_length=max(size, 2),
                         storage=st, imputer=imp)
    steps = cfg["steps"] if kind not in ("batch", "batch-many") else min(cfg["steps"], 15)
    skey = (cfg["stream_seed"], d, cfg["names"], steps, bool(cfg.get("drift")))
    if skey not in _STREAMS:
        srnd = random.Random(cfg["stream_seed"])
        if cfg.get("drift"):      # recurring abrupt concept drift in the relation between the numeric features: the adaptive regression
            rows = []             # trees of a TreeStorage grow ALTERNATE subtrees (an instance then reaches several leaves at once)
            for t in range(steps):
                ph = (t // 200) % 2
                c = float(srnd.randrange(3))
                b = srnd.gauss(0, 1)
                vals = [c, b, (3.0 * b if ph == 0 else -3.0 * b) + srnd.gauss(0, 0.1) + 5 * (c == ph), srnd.gauss(0, 1)]
                rows.append(({n: vals[j] for j, n in enumerate(names)}, srnd.gauss(0, 1)))
            _STREAMS[skey] = rows
        else:
            _STREAMS[skey] = [({n: (float(srnd.randrange(3)) if j == 0 else srnd.gauss(0, 1)) for j, n in enumerate(names)}, srnd.gauss(0, 1))
                              for _ in range(steps)]
    if kind == "batch-many":
        lkey = ("lists",) + skey
        if lkey not in _STREAMS:
            _STREAMS[lkey] = ([x for x, _ in _STREAMS[skey][:8]], [y for _, y in _STREAMS[skey][:8]])
        xs_, ys_ = _STREAMS[lkey]
        r0 = e.explain_many(xs_, ys_, verbose=False)
        yield hashlib.sha256(repr((sorted((repr(k), fhex(v)) for k, v in r0.items()), len(xs_), len(ys_))).encode()).hexdigest()[:12]
    for t in range(steps):
        x, y = _STREAMS[skey][t % 7 if cfg.get("cyclic") else t]      # cyclic: a short recorded list of row OBJECTS played round and round
        if cfg.get("fresh_copies"):
            x = dict(x)                                                # ... or equal-valued fresh copies of the same rows
        if cfg.get("checkpoint_at") == t:
            # checkpoint: explainer, storage and imputer are deep-copied TOGETHER (their mutual references preserved) and the stream
            # continues on the copies; the originals are dropped
            import copy
            e, st, imp, st2 = copy.deepcopy((e, st, imp, st2))
        if cfg.get("manual_feed") and kind in ("sage", "pfi"):
            e.update_storage(x, y)
            if st2 is not None:
                st2.update(x, y)
            r = e.explain_one(x, y, update_storage=False)
        elif kind in ("batch", "batch-many"):
            r = e.explain_one(x, y, verbose=False, original_sage=cfg.get("original_sage", False))
        elif kind == "interval":
            r = e.explain_one(x, y, verbose=False)
        else:
            r = e.explain_one(x, y)
        h = hashlib.sha256()
        h.update(repr(sorted((repr(k), fhex(v)) for k, v in r.items())).encode())
        if hasattr(e, "marginal_prediction"):
            h.update(repr(sorted((repr(k), fhex(v)) for k, v in e.marginal_prediction.items())).encode())
        if hasattr(e, "variances"):
            h.update(repr(sorted((repr(k), fhex(v)) for k, v in e.variances.items())).encode())
        if st is None:
            pass          # library-default storage: not reachable through the public surface, importance values are hashed
        elif st_kind == "tree":
            h.update(repr(sorted((repr(f), sorted((leaf, [sorted((repr(k), fhex(v)) for k, v in xx.items()) for xx in res.get_data()[0]])
                                                  for leaf, res in dd.items())) for f, dd in st.data_reservoirs.items())).encode())
        else:
            xs, ys = st.get_data()
            h.update(repr([sorted((repr(k), fhex(v)) for k, v in xx.items()) for xx in xs]).encode())
            h.update(repr([fhex(v) for v in ys]).encode())
        if st2 is not None:
            h.update(repr([sorted((repr(k), fhex(v)) for k, v in xx.items()) for xx in st2.get_data()[0]]).encode())
        yield h.hexdigest()[:12]


def worker():
    """Subprocess mode: argv = cfg-json seed junkflag -> prints digests as JSON."""
    from vf import core
    core.import_ixai()
    cfgs = json.loads(sys.argv[1])
    seed, junkflag = int(sys.argv[2]), sys.argv[3] == "1"
    out = []
    watch = StateWatch()
    if junkflag:
        watch.phase("junk preamble (other library objects created and used)", junk, random.Random(os.getpid()))
    for k, cfg in enumerate(cfgs):
        try:
            out.append(watch.phase(f"scenario {k}", scenario, cfg, seed))
        except Exception as ex:
            out.append(["raised %s: %s" % (type(ex).__name__, str(ex)[:200])])
    print("STATE " + json.dumps(watch.drain()))
    print("DIGESTS " + json.dumps(out))


def main(run):
    run.rule = ("scenario = seed random and numpy.random -> construct storage (TreeStorage with explicit seed, incl. seed 0), model (plain function or RiverWrapper over string labels), imputer (Marginal joint/"
                "product, library default, TreeImputer both modes), explainer (IncrementalSage/PFI, BatchSage, IntervalSage) -> run a "
                "float stream, hashing bit patterns (float.hex) of importance values, variances and storage / reservoir contents after "
                "EVERY call; compared bit-for-bit: (a) two replays in one process, (b) a replay after a junk preamble (other library "
                "objects created and used, GC churn, sleep) before seeding, (c) replays in fresh subprocesses with the same "
                "PYTHONHASHSEED with and without preamble, (b4) a twin fed equal-valued fresh copies of the recorded observation objects (some streams cycle through a short list of row objects), (b3) a twin that continues on a deep copy of explainer + storage + imputer taken mid-stream, (b2) a twin whose model hands out one shared dict object per distinct input instead of fresh equal dicts, (d) sanity: a different seed must change some digest, otherwise the "
                "scenario is trivial and not counted; (e) the junk preamble also USES unrelated library objects on their edge paths (zero-sum multi-value trackers read normalised, "
                "explainers of untrained / antisymmetric models read through every accessor, trackers read before the first update, empty storages) and a share of the "
                "scenarios use a NumPy-scalar classifier + cross-entropy whose log(0), 0/0 and exp overflow go through NumPy's process-wide error handling; (f) sanitizer: "
                "process-global state (np.geterr/geterrcall/printoptions, decimal context, recursion limit, switch interval, warnings.filters, gc, cwd, environ, sys.path, "
                "locale, type of the global random / np.random state, torch defaults) is snapshotted before and after every library phase, a lasting change is a violation; evaluations = replay comparisons; non-trivial = scenarios whose digests depend "
                "on the seed, distinct by configuration")
    run.assumptions = ["same interpreter configuration includes PYTHONHASHSEED", "seeding precedes construction",
                       "TreeStorage(seed=None) asks river for OS entropy and is outside the scenario set"]
    run.require("ixai/storage/uniform_reservoir_storage.py:UniformReservoirStorage.update",
                "ixai/storage/geometric_reservoir_storage.py:GeometricReservoirStorage.update",
                "ixai/imputer/marginal_imputer.py:MarginalImputer.impute", "ixai/imputer/tree_imputer.py:TreeImputer.impute",
                "ixai/storage/tree_storage.py:TreeStorage.update", "ixai/explainer/sage/incremental.py:IncrementalSage.explain_one",
                "ixai/explainer/sage/batch.py:BatchSage.explain_many")
    run.require_count("global-state-snapshots", "np-sensitive-scenarios", "interference:zero-sum-normalised-read",
                      "interference:explainer-of-degenerate-model", "interference:tracker-read-before-first-update")
    rnd = random.Random(run.shard_seed)
    jrnd = random.Random(run.shard_seed + 1)
    cfgs = []
    watch = StateWatch()

    def report_state_changes(cfg, seed):
        for ch in watch.drain():
            run.violation("global-state-changed", f"{ch['what']} was {ch['before']} before and is {ch['after']} after the phase '{ch['phase']}' "
                                                  f"(cfg {cfg}): a process-wide setting the library left changed reaches every later replay",
                          {"cfg": cfg, "seed": seed, "phase": ch["phase"]})
        watch.restore()
    for i in range(N_CFG[run.tier]):
        cfg = gen_cfg(rnd, i)
        seed = rnd.randrange(2 ** 31)
        cfgs.append((cfg, seed))
        if cfg.get("model") == "np-probs":
            run.count("np-sensitive-scenarios")
        try:
            a = watch.phase("first replay", scenario, cfg, seed)
        except Exception as ex:
            run.other_error(f"scenario:{type(ex).__name__}:{str(ex)[:60]}")
            report_state_changes(cfg, seed)
            continue
        replay = {"cfg": cfg, "seed": seed}
        try:
            # the scenario ran alone (a); a replay, or the same scenario after / next to other library objects, must not even raise
            b = watch.phase("second replay", scenario, cfg, seed)
            keep = watch.phase("junk preamble (other library objects created and used)", junk, jrnd)
            c = watch.phase("replay after junk preamble", scenario, cfg, seed)
            other = watch.phase("replay with another seed", scenario, cfg, seed + 1) if not cfg.get("drift") else None
            ident = watch.phase("shared-output twin", scenario, dict(cfg, output_identity="shared"), seed) if cfg.get("model") not in STATEFUL_MODELS and not cfg.get("drift") else None
            copies = watch.phase("fresh-copies twin", scenario, dict(cfg, fresh_copies=True), seed) if not cfg.get("drift") and cfg["explainer"] != "batch-many" else None
            ckpt_at = [2, 5, max(1, len(a) // 2)][i % 3]
            ckpt = watch.phase("checkpoint twin", scenario, dict(cfg, checkpoint_at=ckpt_at), seed) if not cfg.get("drift") else None
            del keep
        except Exception as ex:
            report_state_changes(cfg, seed)
            run.ok(kind="in-process")
            run.violation("history-dependence", f"cfg {cfg}: the scenario ran alone, but a replay / other library objects in the same process "
                                                f"raised {type(ex).__name__}: {ex}", replay)
            continue
        run.ok(kind="global-state-unchanged")
        report_state_changes(cfg, seed)
        run.ok(2, kind="in-process")
        for name, dgs in (("second replay", b), ("replay after junk preamble", c)):
            if dgs != a:
                step = next((i for i, (p, q) in enumerate(zip(a, dgs)) if p != q), None)
                run.violation("in-process-divergence" if name == "second replay" else "history-dependence",
                              f"{name} diverges at call {step} for cfg {cfg}", replay)
        if copies is not None:
            run.ok(kind="fresh-copies-twin")
            if copies != a:
                step = next((k_ for k_, (p_, q_) in enumerate(zip(a, copies)) if p_ != q_), None)
                run.violation("object-identity-dependence", f"cfg {cfg}: feeding equal-valued fresh copies of the observations instead of the recorded dict objects "
                                                            f"changes the results from call {step} on", replay)
        if ckpt is not None:
            run.ok(kind="checkpoint-twin")
            if ckpt != a:
                step = next((k_ for k_, (p_, q_) in enumerate(zip(a, ckpt)) if p_ != q_), None)
                run.violation("object-identity-dependence", f"cfg {cfg}: continuing on a deep copy of (explainer, storage, imputer) taken before call {ckpt_at} "
                                                            f"changes the results from call {step} on", dict(replay, checkpoint_at=ckpt_at))
        if ident is not None:
            run.ok(kind="output-identity-twin")
        if ident is not None and ident != a:
            step = next((i for i, (p, q) in enumerate(zip(a, ident)) if p != q), None)
            run.violation("object-identity-dependence", f"cfg {cfg}: a model handing out the same dict object for equal inputs (instead of equal "
                                                        f"fresh dicts) changes the results from call {step} on", replay)
        if other is None:
            run.nontriv(cfg)
            run.count("drift-scenarios")
        elif other != a:
            run.nontriv(cfg)
            run.count("seed-sensitive-scenarios")
        else:
            run.count("seed-insensitive-scenarios")
        if len(run.samples) < 2:
            run.sample({"cfg": cfg, "seed": seed, "digests_first_calls": a[:4], "replay_equal": a == b, "after_junk_equal": a == c,
                        "other_seed_differs": other != a})
        cfg_b = dict(gen_cfg(rnd, i + 1), steps=cfg["steps"] + 5)
        if cfg.get("drift"):
            continue
        try:
            try:
                d_int = watch.phase("interleaved twin", interleaved, cfg, seed, cfg_b, seed + 7)
            finally:
                report_state_changes(cfg, seed)
            run.ok(kind="interleaved-twin")
            if d_int != a:
                step = next((k for k, (p_, q_) in enumerate(zip(a, d_int)) if p_ != q_), None)
                run.violation("shared-state-between-objects", f"scenario diverges at call {step} when an independent scenario {cfg_b} "
                                                              f"runs interleaved (its generator use undone): cfg {cfg}", {"cfg": cfg, "seed": seed, "other": cfg_b})
        except Exception as ex:
            run.violation("shared-state-between-objects", f"cfg {cfg}: raised {type(ex).__name__}: {ex} when an independent scenario ran interleaved",
                          {"cfg": cfg, "seed": seed, "other": cfg_b})
    # ---- cross-process
    sub = [c for c, s in cfgs[:N_SUB[run.tier]]]
    seed = cfgs[0][1] if cfgs else 1
    outs = []
    env = dict(os.environ)
    for junkflag in ("0", "1", "0"):
        try:
            p = subprocess.run([sys.executable, "-W", "ignore", "-m", "vf.checks.c18", json.dumps(sub), str(seed), junkflag],
                               capture_output=True, text=True, timeout=600, env=env)
            line = [l for l in p.stdout.splitlines() if l.startswith("DIGESTS ")]
            outs.append(json.loads(line[-1][8:]) if line else None)
            for sl in [l for l in p.stdout.splitlines() if l.startswith("STATE ")][-1:]:
                run.ok(kind="global-state-unchanged")
                for ch in json.loads(sl[6:]):
                    run.violation("global-state-changed", f"fresh process: {ch['what']} was {ch['before']} before and is {ch['after']} after the phase "
                                                          f"'{ch['phase']}' of {sub}", {"cfgs": sub, "seed": seed, "phase": ch["phase"], "junk": junkflag})
            if not line:
                run.unreachable("subprocess replay produced no digests: " + (p.stderr or p.stdout)[-400:])
        except subprocess.TimeoutExpired:
            run.unreachable("subprocess replay hit the watchdog")
            outs.append(None)
    if all(o is not None for o in outs):
        here = [scenario(c, seed) for c in sub]
        for i, c in enumerate(sub):
            run.ok(3, kind="cross-process")
            if not (outs[0][i] == outs[2][i] == here[i]):
                run.violation("cross-process-divergence", f"fresh processes disagree for cfg {c}", {"cfg": c, "seed": seed})
            if outs[1][i] != outs[0][i]:
                run.violation("history-dependence", f"fresh process with junk preamble disagrees for cfg {c}", {"cfg": c, "seed": seed})
    for k_, v_ in COUNTS.items():
        run.count(k_, v_)


if __name__ == "__main__":
    worker()
