"""C19 - TreeStorage reservoirs track current leaves; TreeImputer uses observed values."""
import itertools
import random

import numpy as np

SHARDS = {"quick": 8, "thorough": 16}
TIMEOUT = {"quick": 1500, "thorough": 10800}
INF = float("inf")


def leaves_with_path(node, path=()):
    if hasattr(node, "children"):
        for b, ch in enumerate(node.children):
            yield from leaves_with_path(ch, path + ((node, b),))
    else:
        yield node, path


def witness(path, feats):
    """A complete point satisfying the branch conditions on the path (None if contradictory)."""
    lo = {f: -INF for f in feats}
    hi = {f: INF for f in feats}
    eq, ne = {}, {f: set() for f in feats}
    for node, b in path:
        f = node.feature
        if f not in lo:
            return None
        if hasattr(node, "threshold"):
            if b == 0:
                hi[f] = min(hi[f], node.threshold)
            else:
                lo[f] = max(lo[f], node.threshold)
        else:
            if b == 0:
                if f in eq and eq[f] != node.value:
                    return None
                eq[f] = node.value
            else:
                ne[f].add(node.value)
    x = {}
    for f in feats:
        if f in eq:
            if eq[f] in ne[f]:
                return None
            if isinstance(eq[f], (int, float)) and not (lo[f] < eq[f] <= hi[f]):
                return None
            if not isinstance(eq[f], (int, float)) and (lo[f] > -INF or hi[f] < INF):
                return None
            x[f] = eq[f]
            continue
        if lo[f] >= hi[f]:
            return None
        if hi[f] == INF and lo[f] == -INF:
            c = 0.123456
        elif hi[f] == INF:
            c = lo[f] + 1.0
        else:
            c = hi[f]
        tries = 0
        while c in ne[f] or not (lo[f] < c <= hi[f]):
            c = (lo[f] + c) / 2 if lo[f] > -INF else c - 1.0
            tries += 1
            if tries > 60:
                return None
        x[f] = c
    return x


def leaf_names(st, f, keys=None):
    """Names of the current tree's leaves obtained behaviourally: witness point routed with river's own traverse and
    named with the library's public get_path_through_tree.  Returns (names, n_leaves, n_unnamed).
    keys: all keys the instances of the stream carry (registered features and further entries the trees also see)."""
    tree, _ = st(f)
    root = tree._root
    feats = [g for g in (st.feature_names if keys is None else keys) if g != f]
    names, n, bad = set(), 0, 0
    for leaf, path in leaves_with_path(root):
        n += 1
        w = witness(path, feats)
        if w is None:
            bad += 1
            continue
        if path:
            reached = root.traverse(w, until_leaf=True)
            reached = reached if isinstance(reached, list) else [reached]
            if not any(r is leaf for r in reached):
                bad += 1
                continue
        names.add(st.get_path_through_tree(root, w))
    return names, n, bad


def gen_stream(rnd, n, period, style):
    """Mixed stream: 2 numeric-coded categorical + 2 numeric features, recurring abrupt / gradual concept drift."""
    for i in range(n):
        if style == "collapse":      # c1 is a function of n1 first, pure noise afterwards: with a long grace period the adaptive tree of
            n1 = rnd.uniform(-1, 1)  # c1 is replaced by a still unsplit alternate and COLLAPSES to a single leaf
            c1 = int(n1 > 0) if i < period else int(rnd.random() < 0.9)
            yield {"c1": c1, "c2": rnd.choice([0, 1]), "n1": n1, "n2": rnd.gauss(0, 0.3)}
            continue
        phase = (i // period) % 3
        if style == "gradual" and rnd.random() < (i % period) / period * 0.5:
            phase = (phase + 1) % 3
        c1, c2 = rnd.choice([0, 1, 2]), rnd.choice([0, 1])
        if phase == 0:
            n1 = rnd.gauss(0, 0.3) + 5 * (c1 == 0)
            n2 = rnd.gauss(0, 0.3) + 4 * c2
        elif phase == 1:
            n1 = rnd.gauss(0, 0.3) + 5 * (c2 == 1)
            n2 = rnd.gauss(0, 0.3) - 4 * (c1 == 2)
        else:
            n1 = rnd.gauss(0, 0.3)
            n2 = rnd.gauss(0, 0.3) + 3 * (n1 > 0)
        yield {"c1": c1, "c2": c2, "n1": n1, "n2": n2}


def add_unregistered(x, i, schema, cfg_no, onset, ernd):
    """Entries of the instance that are NOT registered features of the storage (update() skips such keys when it picks the trees
    to train, the trees see them as inputs, the reservoirs keep the data point as observed): a row id, a timestamp, and - from
    step `onset` on, as a producer that starts to report more - further entries, so that one stream (and one reservoir) mixes
    instances with different key sets.  Keys never disappear again (a tree that split on an entry cannot route an instance without it).
    schema 'numeric': ints / floats / bools;  schema 'strings' (storages that register the categorical features only, where river's
    classifiers accept them): string entries, next to the numeric readings n1, n2 which are unregistered there."""
    if schema == "numeric":
        x["row"] = i if cfg_no % 8 != 5 else i % 7
        x["ts"] = 0.5 * i + ernd.random() * 0.25
        if i >= onset:
            x["batch"] = i // 40
            x["flag"] = ernd.random() < 0.3
    elif schema == "strings":
        x["src"] = ernd.choice(["sensor-a", "sensor-b", "gateway"])
        x["row"] = i
        if i >= onset:
            x["note"] = ernd.choice(["ok", "late", ""])
    return x


CONFIGS = [
    # (max_depth, grace, reservoir length, drift period, style, steps quick, steps thorough)
    (2, 50, 3, 1500, "abrupt", 4500, 12000),
    (2, 20, 3, 400, "abrupt", 3000, 12000),
    (3, 10, 1, 300, "abrupt", 2500, 10000),
    (1, 20, 3, 500, "abrupt", 2500, 8000),
    (3, 20, 10, 600, "gradual", 3000, 10000),
    (5, 5, 3, 250, "abrupt", 2000, 8000),
    (2, 10, 1, 200, "gradual", 3000, 12000),
    (5, 200, 10, 1500, "abrupt", 3000, 10000),
    (2, 50, 3, 700, "abrupt", 4000, 12000),
    (3, 50, 3, 1000, "gradual", 3000, 12000),
    (2, 30, 10, 350, "abrupt", 3000, 12000),
    (4, 15, 3, 450, "abrupt", 2500, 10000),
    (2, 5, 3, 150, "abrupt", 2500, 10000),
    (1, 5, 1, 100, "gradual", 2000, 8000),
    (3, 30, 3, 800, "abrupt", 3000, 12000),
    (2, 100, 3, 1200, "abrupt", 4000, 14000),
]


# Witness scenarios found by tools/c19_search.py on the pinned tree: a subtree is replaced while the newest point is routed to a
# leaf whose name already has a reservoir (the situation the stale-reservoir clause is about).  Fixed seeds, independent of VERIF_SEED.
WITNESS = [
    # (max_depth, grace, reservoir length, drift period, style, seed, steps)
    (3, 50, 1, 600, "abrupt", 93, 600),
    (3, 50, 3, 600, "abrupt", 132, 2300),
    (2, 100, 1, 800, "abrupt", 150, 4200),
    (2, 50, 1, 600, "abrupt", 115, 4500),
    (2, 100, 3, 600, "abrupt", 166, 4900),
]
# ... and scenarios (fixed seeds) in which the tree of c1 collapses to ONE leaf (an unsplit alternate replaces the root)
COLLAPSE = [
    (3, 500, 5, 2500, "collapse", 1, 3300),
    (2, 400, 3, 1800, "collapse", 3, 2600),
    (3, 500, 5, 2500, "collapse", 5, 3300),
    (2, 400, 3, 1800, "collapse", 4, 2600),
]


def check_imputer(run, st, x, model_calls, model, observed_cat, rnd, tag, replay, imps=None):
    """imps: long-lived imputers {(use_storage, direct): TreeImputer} polled in 'light' mode (one subset, no storage snapshot);
    None: fresh imputers, six subsets each, storage snapshot before / after."""
    from ixai.imputer import TreeImputer
    feats = st.feature_names
    subsets = [list(c) for r in range(len(feats) + 1) for c in itertools.combinations(feats, r)]
    rnd.shuffle(subsets)
    light = imps is not None
    for use_storage in (False, True):
        for direct in (False, True):
            if light:
                if (use_storage, direct) not in imps:
                    continue
                imp = imps[(use_storage, direct)]
            else:
                imp = TreeImputer(model, st, direct_predict_numeric=direct, use_storage=use_storage)
            for sub in subsets[:(1 if light else 6)]:
                n = rnd.choice([1, 3])
                x0 = dict(x)
                res_before = {} if light else {f: {k: [tuple(sorted(d.items())) for d in r.get_data()[0]] for k, r in st.data_reservoirs[f].items()} for f in feats}
                names_before = {} if light else {f: leaf_names(st, f)[0] for f in feats}
                del model_calls[:]
                try:
                    out = imp.impute(list(sub), x, n_samples=n)
                except Exception as ex:
                    run.ok(kind="impute")
                    run.violation("imputer-raises", f"{tag}: TreeImputer(use_storage={use_storage}, direct={direct}).impute({sub}) raised "
                                                    f"{type(ex).__name__}: {ex}", replay)
                    continue
                run.ok(kind=("long-lived-" if light else "") + ("impute-storage" if use_storage else "impute-model"))
                rp = {**replay, "long_lived_imputer": light, "subset": sub, "use_storage": use_storage, "direct_predict_numeric": direct, "x": x0}
                if not isinstance(out, list) or len(out) != n or len(model_calls) != n:
                    run.violation("imputer-result-count", f"{tag}: {len(out) if hasattr(out, '__len__') else out} predictions / {len(model_calls)} evaluations for n_samples={n}", rp)
                if x != x0:
                    run.violation("imputer-modified-instance", f"{tag}: x changed", rp)
                res_after = {} if light else {f: {k: [tuple(sorted(d.items())) for d in r.get_data()[0]] for k, r in st.data_reservoirs[f].items()} for f in feats}
                if res_after != res_before or (not light and {f: leaf_names(st, f)[0] for f in feats} != names_before):
                    run.violation("imputer-modified-storage", f"{tag}: reservoirs or trees changed during impute", rp)
                for xi in model_calls:
                    if set(xi.keys()) != set(x.keys()) or any(xi[f] != x[f] for f in x if f not in sub):
                        run.violation("imputer-outside-subset", f"{tag}: model input {xi!r} differs from x outside {sub}", rp)
                        continue
                    for f in sub:
                        tree, kind = st(f)
                        if use_storage:
                            lid = st.get_path_through_tree(tree._root, x)
                            r = st.data_reservoirs[f].get(lid)
                            if r is not None:
                                allowed = [d[f] for d in r.get_data()[0]]
                                run.count("storage-mode-values-judged")
                                if not any(xi[f] == a for a in allowed):
                                    run.violation("imputer-not-from-leaf-reservoir",
                                                  f"{tag}: feature {f!r} imputed with {xi[f]!r}; reservoir of the instance's leaf holds {allowed!r}", rp)
                                continue
                            run.count("storage-mode-fallbacks")
                        if kind == "cat" and xi[f] not in observed_cat[f]:
                            run.violation("imputer-unobserved-class", f"{tag}: categorical {f!r} imputed with {xi[f]!r}, observed classes {sorted(observed_cat[f])}", rp)
                if sub:
                    run.nontriv(("imp", use_storage, direct, tuple(sub), n))


def main(run):
    from ixai.storage import TreeStorage
    run.rule = ("drifting mixed streams (2 numeric-coded categorical + 2 numeric features, recurring abrupt / gradual drift) x 16 "
                "(max_depth, grace_period, reservoir length, drift period) configurations; after EVERY update: len == #updates, for each "
                "feature reservoir keys subset of the names of the current tree's leaves (leaves enumerated from the river tree, each "
                "named by routing a synthesised witness point with river's traverse and the library's public get_path_through_tree), "
                "each reservoir holds <= configured entries each being (identity) a previously observed complete data point, the newest "
                "observation is in the reservoir named by its own routing; periodically TreeImputer (2 flags x 2 modes, random "
                "subsets, n in {1,3}): inputs differ from x only on the subset, storage mode values come from the reservoir of the "
                "instance's leaf (fallback only without reservoir), categorical values are observed classes, n predictions, nothing "
                "modified; three LONG-LIVED TreeImputers polled before and after the update of an instance (the same object or an equal copy), streams with repeated rows and whole numeric readings as ints in every other random configuration; in 8 of the 16 random configurations the instances carry entries that are NOT registered features (row id, timestamp, batch no, bool flag; from a random onset step on further ones, so key sets differ within a stream; 2 configurations register the categorical features only and carry string entries next to the unregistered numeric readings): a reservoir entry must equal, on ALL its keys, the snapshot of an observed instance; evaluations = invariant / imputer evaluations; non-trivial = updates after which a tree lost a named leaf "
                "(the stale-reservoir clause is only exercised there) and distinct imputer cases")
    run.assumptions = ["complete dicts and numeric-coded categories", "unregistered entries never disappear again within a stream (the library cannot route an instance that lacks an entry a tree split on: KeyError) and are numeric whenever a numeric feature is registered (river's linear leaf models reject strings)", "explicit tree seed",
                       "leaves whose path constraints are contradictory cannot be named by a witness; a key is judged stale only when "
                       "every leaf of the tree could be named (otherwise counted as unjudgeable)"]
    run.require("ixai/storage/tree_storage.py:TreeStorage.update", "ixai/storage/tree_storage.py:TreeStorage.get_path_through_tree",
                "ixai/imputer/tree_imputer.py:TreeImputer.impute")
    thorough = run.tier == "thorough"
    sh, nsh = run.shard
    model_calls = []

    def model(xx):
        model_calls.append(dict(xx))
        return {"output": 0.0}
    fixed = list(WITNESS if thorough else WITNESS[:3]) + list(COLLAPSE if thorough else COLLAPSE[:2])
    plan = fixed + [(c[:5] + (None, c[6] if thorough else c[5])) for c in CONFIGS]
    for j, (md, gp, L, period, style, fixed_seed, steps) in enumerate(plan):
        if j % nsh != sh:
            continue
        seed = run.shard_seed * 131 + j if fixed_seed is None else fixed_seed
        rnd = random.Random(seed)
        irnd = random.Random(seed + 1)
        random.seed(seed)
        np.random.seed(seed % 2 ** 32)
        cfg_no = j - len(fixed)
        schema = None if fixed_seed is not None else "strings" if cfg_no % 8 == 3 else "numeric" if (cfg_no % 4 == 1 or cfg_no % 8 == 7) else None
        ernd = random.Random(seed + 3)
        onset = ernd.choice([1, 7, 40, 150, 600])
        if schema == "strings":
            st = TreeStorage(cat_feature_names=["c1", "c2"], num_feature_names=[], max_depth=md,
                             leaf_reservoir_length=L, grace_period=gp, seed=seed % 1000)
        elif fixed_seed is None and j % 2 == 1:
            # positional arguments in the documented order: (cat, num, max_depth, leaf_reservoir_length, grace_period, seed)
            st = TreeStorage(["c1", "c2"], ["n1", "n2"], md, L, gp, seed % 1000)
        else:
            st = TreeStorage(cat_feature_names=["c1", "c2"], num_feature_names=["n1", "n2"], max_depth=md,
                             leaf_reservoir_length=L, grace_period=gp, seed=seed % 1000)
        feats = st.feature_names
        seen_ids = {}
        observed_cat = {"c1": set(), "c2": set()}
        prev_names = {f: None for f in feats}
        tag0 = (f"max_depth={md} grace={gp} reservoir={L} period={period} {style}" + (" [witness scenario]" if fixed_seed is not None else "")
                + (f" [instances carry unregistered {schema} entries, more of them from step {onset} on]" if schema else ""))
        all_keys = list(feats)
        stop = False
        lost_events = critical = 0
        # long-lived imputers (as an explainer holds them) polled around every update; in every other random configuration the
        # stream also repeats rows now and then and reports whole numeric readings as Python ints
        from ixai.imputer import TreeImputer
        imps = {(True, False): TreeImputer(model, st, direct_predict_numeric=False, use_storage=True),
                (True, True): TreeImputer(model, st, direct_predict_numeric=True, use_storage=True),
                (False, j % 2 == 0): TreeImputer(model, st, direct_predict_numeric=(j % 2 == 0), use_storage=False)}
        vary = fixed_seed is None and j % 2 == 1
        prnd = random.Random(seed + 2)
        prev_x = None
        for i, x in enumerate(gen_stream(rnd, steps, period, style)):
            if vary:
                if prev_x is not None and prnd.random() < 0.06:
                    x = dict(prev_x)                         # a repeated row (equal values, another object)
                elif prnd.random() < 0.1:
                    x["n1"] = int(round(x["n1"]))            # a whole reading of a numeric feature arrives as a Python int
                    if prnd.random() < 0.5:
                        x["n2"] = int(round(x["n2"]))
            if schema:
                add_unregistered(x, i, schema, cfg_no, onset, ernd)
                run.count("updates-with-unregistered-entries")
                if any(isinstance(v, str) for v in x.values()):
                    run.count("updates-with-unregistered-string-entries")
                if any(g not in all_keys for g in x):
                    if i:
                        run.count("streams-whose-instances-start-to-carry-further-entries")
                    all_keys += [g for g in x if g not in all_keys]
            prev_x = x
            poll = i >= 12 and (i < 400 or prnd.random() < 0.15) and not stop
            if poll:       # explain (impute around the instance) BEFORE it enters the storage ...
                check_imputer(run, st, x, model_calls, model, observed_cat, prnd, f"{tag0} step {i} (before its update)",
                              {"config": tag0, "seed": seed, "step": i}, imps=imps)
            seen_ids[tuple(sorted(x.items()))] = (x, dict(x))
            for c in observed_cat:
                observed_cat[c].add(x[c])
            keys_before = {f: set(st.data_reservoirs[f].keys()) for f in feats}
            st.update(x)
            replay = {"config": {"max_depth": md, "grace_period": gp, "leaf_reservoir_length": L, "drift_period": period, "style": style},
                      "seed": seed, "step": i}
            tag = f"{tag0} step {i}"
            run.ok(kind="update-invariant")
            if len(st) != i + 1:
                run.violation("length", f"{tag}: len(storage)={len(st)} after {i + 1} updates", replay)
                stop = True
            for f in feats:
                names, nleaves, unnamed = leaf_names(st, f, all_keys)
                keys = set(st.data_reservoirs[f].keys())
                if prev_names[f] is not None and len(prev_names[f]) > 1 and len(names) == 1:
                    run.count("tree-collapsed-to-one-leaf")
                if prev_names[f] is not None and (prev_names[f] - names):
                    lost = prev_names[f] - names
                    run.count("updates-where-a-tree-lost-named-leaves")
                    lost_events += 1
                    run.nontriv(("lost", j, i, f))
                    tree0, _ = st(f)
                    lid0 = st.get_path_through_tree(tree0._root, {k: v for k, v in x.items() if k != f})
                    if (lost & keys_before[f]) and lid0 in keys_before[f]:
                        # leaves with reservoirs vanished while the newest point went to a leaf that already had one
                        run.count("critical-restructure-events")
                        critical += 1
                prev_names[f] = names
                extra = keys - names
                if extra:
                    if unnamed == 0:
                        run.violation("stale-reservoir", f"{tag}: feature {f!r} keeps {len(extra)} reservoir(s) for leaves that are not in its "
                                                         f"current tree ({nleaves} leaves), e.g. {sorted(extra)[0][:160]!r}", replay)
                        stop = True
                    else:
                        run.count("unjudgeable-keys(unnamed-leaves)")
                for k, r in st.data_reservoirs[f].items():
                    data = r.get_data()[0]
                    if len(data) > L or len(r) > L:
                        run.violation("reservoir-capacity", f"{tag}: reservoir of {f!r} holds {len(data)} > {L}", replay)
                        stop = True
                    for dpt in data:
                        ent = seen_ids.get(tuple(sorted(dpt.items()))) if isinstance(dpt, dict) else None      # (by value: a copy of an observed point is that point)
                        if ent is not None and len(ent[1]) > len(feats):
                            run.count("reservoir-entries-with-unregistered-entries-judged")
                        # complete = every key the observed point had (equality with the snapshot taken when it was observed), which
                        # includes every registered feature
                        if ent is None or dpt != ent[1] or set(dpt.keys()) != set(ent[1].keys()) or not set(feats) <= set(dpt.keys()):
                            run.violation("reservoir-entry-not-observed", f"{tag}: reservoir of {f!r} holds {dpt!r} which is not a previously "
                                                                          f"observed complete data point", replay)
                            stop = True
                            break
                tree, _ = st(f)
                xi = {k: v for k, v in x.items() if k != f}
                lid = st.get_path_through_tree(tree._root, xi)
                r = st.data_reservoirs[f].get(lid)
                if r is None or not any(dpt is x or dpt == x for dpt in r.get_data()[0]):
                    run.violation("newest-not-in-its-leaf", f"{tag}: newest observation is not in the reservoir of the leaf it is routed to "
                                                            f"for feature {f!r}", replay)
                    stop = True
            if poll and not stop:       # ... and again right after (the same instance re-explained, or an equal copy of it)
                check_imputer(run, st, x if prnd.random() < 0.5 else dict(x), model_calls, model, observed_cat, prnd,
                              f"{tag} (after its update)", replay, imps=imps)
            if i >= 30 and i % (400 if not thorough else 250) == 17 and not stop:
                xq = dict(next(gen_stream(irnd, 1, period, style)))
                if schema:
                    add_unregistered(xq, i, schema, cfg_no, onset, irnd)
                if irnd.random() < 0.4:      # the explained instance carries whole numeric readings as ints (NumPy ints now and then)
                    xq["n1"] = irnd.choice([int, np.int64])(round(xq["n1"]))
                    xq["n2"] = int(round(xq["n2"]))
                check_imputer(run, st, xq, model_calls, model, observed_cat, irnd, tag, replay)
            if stop:
                break
        if schema:
            def split_features(node):
                if hasattr(node, "children"):
                    yield node.feature
                    for ch in node.children:
                        yield from split_features(ch)
            for f in feats:
                if any(g not in feats for g in split_features(st(f)[0]._root)):
                    run.count("trees-that-split-on-an-unregistered-entry")
        run.notes[f"cfg{j} {tag0}"] = {"steps": i + 1, "leaf_loss_events": lost_events, "critical_restructure_events": critical,
                                       "trees": {f: [st(f)[0].n_alternate_trees, st(f)[0].n_pruned_alternate_trees,
                                                     st(f)[0].n_switch_alternate_trees, st(f)[0].n_leaves] for f in feats}}
        if len(run.samples) < 2:
            run.sample({"config": tag0, "seed": seed, "steps": i + 1, "leaf_loss_events": lost_events,
                        "reservoir_keys_per_feature": {f: len(st.data_reservoirs[f]) for f in feats},
                        "example_leaf_name": (sorted(leaf_names(st, feats[-1], all_keys)[0]) + [""])[0][:200]})
    run.require_count("critical-restructure-events", "updates-where-a-tree-lost-named-leaves", "tree-collapsed-to-one-leaf",
                      "updates-with-unregistered-entries", "updates-with-unregistered-string-entries",
                      "streams-whose-instances-start-to-carry-further-entries", "reservoir-entries-with-unregistered-entries-judged",
                      "trees-that-split-on-an-unregistered-entry")
