"""C20 - float results stay close to exact arithmetic on long, ill-conditioned streams (differential execution of the
same shipped code in floats and in exact / 60-digit arithmetic)."""
import decimal
import math
import random
from fractions import Fraction

import numpy as np

from ..qnum import Q

SHARDS = {"quick": 8, "thorough": 16}
TIMEOUT = {"quick": 1500, "thorough": 14400}
EPS = 2.0 ** -52
SCALE = 1100        # every finite double times 2**SCALE is an integer


def to_int(v):
    n, d = float(v).as_integer_ratio()
    return n * (2 ** SCALE // d)


def gen(rnd, n, pattern, mag, offset):
    """n floats: base values of magnitude `mag`, shifted by offset*mag."""
    if pattern == "random":
        vals = [rnd.gauss(0, 1) * mag for _ in range(n)]
    elif pattern == "sorted":
        vals = sorted(rnd.gauss(0, 1) * mag for _ in range(n))
    elif pattern == "alternating":
        vals = [((-1) ** i) * (1 + rnd.random()) * mag for i in range(n)]
    elif pattern == "constant-then-jump":
        vals = [mag] * (n // 2) + [mag * 3.5] * (n - n // 2)
    elif pattern == "constant":
        vals = [mag * 1.2345678901234567] * n
    elif pattern == "mixed-magnitudes":
        vals = [rnd.gauss(0, 1) * 10 ** rnd.choice([-8, -4, 0, 4, 8]) for _ in range(n)]
    elif pattern == "heavy-tail":
        vals = [mag * rnd.paretovariate(1.2) * rnd.choice([1, -1]) for _ in range(n)]
    else:
        raise ValueError(pattern)
    return [v + offset * mag for v in vals]


PATTERNS = ["random", "sorted", "alternating", "constant-then-jump", "constant", "mixed-magnitudes", "heavy-tail"]


def main(run):
    from ixai.utils.tracker import WelfordTracker, ExponentialSmoothingTracker
    run.rule = ("differential execution: float streams (7 orderings x magnitudes 1e-8..1e8 x offsets 0..1e9*spread, lengths up to 1e5 "
                "quick / 1e6 thorough) through the shipped WelfordTracker / ExponentialSmoothingTracker vs exact integer-scaled sums "
                "(mean, population variance) and a 60-digit evaluation of the smoothing recurrence; bounds: mean error <= "
                "(2n+8)*eps*max|v|, smoothed error <= 8*eps*max|v|/alpha, relative variance error <= 4n*eps*kappa + 16eps with "
                "kappa = sqrt(1+mean^2/var) (zero-variance inputs: absolute 4n*eps*mean^2), everything finite; SlidingWindowTracker mean / "
                "variance under the same bounds relative to the CURRENT window (falling magnitudes, huge outliers that left the window); explainer runs "
                "(IncrementalPFI / IncrementalSage, static and dynamic) driven by such loss sequences executed twice from the same "
                "generator state, in floats and in exact rationals (IncrementalPFI: against an independent exact reference computed from the loss sequence), importance values within 4*eps*max|loss|*(d+2)*max(n,2/alpha); "
                "evaluations = bound comparisons at checkpoints; non-trivial = distinct (pattern, magnitude, offset, length, alpha) "
                "streams with >= 3 distinct values; the largest observed error/bound ratio is reported")
    run.assumptions = ["bounds are first-order error bounds with a safety factor 4 (DESIGN C20); inputs finite",
                       "60-digit decimal evaluation of the smoothing closed form has negligible own error"]
    run.require("ixai/utils/tracker/welford.py:WelfordTracker.update", "ixai/utils/tracker/exponential_smoothing.py:ExponentialSmoothingTracker.update",
                "ixai/explainer/pfi.py:IncrementalPFI.explain_one", "ixai/explainer/sage/incremental.py:IncrementalSage.explain_one")
    thorough = run.tier == "thorough"
    sh, nsh = run.shard
    rnd = random.Random(run.shard_seed)
    decimal.getcontext().prec = 60
    worst = {"mean": 0.0, "var": 0.0, "smooth": 0.0, "explainer": 0.0}
    jobs = []
    for pattern in PATTERNS:
        for mag in (1e-8, 1.0, 1e8):
            for offset in (0.0, 1e3, 1e9):
                jobs.append((pattern, mag, offset))
    lengths = [1000, 20000, 100000] if not thorough else [1000, 100000, 1000000]
    for j, (pattern, mag, offset) in enumerate(jobs):
        if j % nsh != sh:
            continue
        n = lengths[j // nsh % len(lengths)] if not (thorough and pattern == "sorted") else min(lengths[j // nsh % len(lengths)], 100000)
        alpha = rnd.choice([0.001, 0.01, 1 / 3, 0.5, 0.9, 1.0, rnd.uniform(1e-4, 1)])
        vals = gen(rnd, n, pattern, mag, offset)
        w, e = WelfordTracker(), ExponentialSmoothingTracker(alpha)
        s1 = s2 = 0
        dec_a, dec_s = decimal.Decimal(alpha), decimal.Decimal(0)
        one_minus = 1 - dec_a
        mx = 0.0
        checkpoints = {1, 2, 3, 10, 100, 1000, n // 2, n}
        tag = f"{pattern} mag={mag:g} offset={offset:g} alpha={alpha:.4g}"
        replay = {"pattern": pattern, "magnitude": mag, "offset": offset, "n": n, "alpha": alpha, "seed": run.shard_seed, "job": j}
        failed = False
        for i, v in enumerate(vals):
            if i % 50 == 49 and pattern in ("random", "sorted", "heavy-tail"):
                v = vals[i] = float(w.mean)       # a value exactly equal to the running mean (with polling reads around it)
                _ = (w.var, w.std)
            w.update(v)
            e.update(v)
            if i % 50 in (48, 49):
                _ = (w.var, w.std)
            iv = to_int(v)
            s1 += iv
            s2 += iv * iv
            dec_s = one_minus * dec_s + dec_a * decimal.Decimal(v)
            mx = max(mx, abs(v))
            m = i + 1
            if m in checkpoints:
                mean_x = Fraction(s1, m) / 2 ** SCALE
                var_x = (Fraction(s2, m) - Fraction(s1, m) ** 2) / 2 ** (2 * SCALE)
                fm, fv, fs, fe = float(w.mean), float(w.var), float(w.std), float(e.get())
                run.ok(4, kind="tracker-bounds")
                if not all(map(math.isfinite, (fm, fv, fs, fe))) or w.N != m or e.N != m:
                    run.violation("non-finite", f"{tag} n={m}: mean={fm} var={fv} std={fs} smoothed={fe}", replay)
                    failed = True
                    break
                err_m = abs(Fraction(fm) - mean_x)
                b_m = (2 * m + 8) * EPS * mx
                worst["mean"] = max(worst["mean"], float(err_m) / b_m if b_m else 0.0)
                if err_m > b_m:
                    run.violation("welford-mean-error", f"{tag} n={m}: |mean - exact| = {float(err_m):.3g} > bound {b_m:.3g}", replay)
                    failed = True
                if var_x > 0:
                    kappa = math.sqrt(1 + float(mean_x * mean_x / var_x))
                    rel = abs(Fraction(fv) - var_x) / var_x
                    b_v = 4 * m * EPS * kappa + 16 * EPS
                    worst["var"] = max(worst["var"], float(rel) / b_v)
                    if rel > b_v or fv < 0:
                        run.violation("welford-variance-error", f"{tag} n={m}: relative variance error {float(rel):.3g} > bound {b_v:.3g} "
                                                                f"(kappa={kappa:.3g}, var={fv!r}, exact {float(var_x)!r})", replay)
                        failed = True
                else:
                    b_v = 4 * m * EPS * float(mean_x * mean_x) + 1e-300
                    worst["var"] = max(worst["var"], abs(fv) / b_v)
                    if abs(fv) > b_v or fv < 0:
                        run.violation("welford-variance-error", f"{tag} n={m}: zero-variance input reports var={fv!r} > {b_v:.3g}", replay)
                        failed = True
                err_s = abs(decimal.Decimal(fe) - dec_s)
                b_s = 8 * EPS * mx / alpha
                worst["smooth"] = max(worst["smooth"], float(err_s) / b_s if b_s else 0.0)
                if err_s > decimal.Decimal(b_s):
                    run.violation("smoothing-error", f"{tag} n={m}: |smoothed - exact| = {float(err_s):.3g} > bound {b_s:.3g}", replay)
                    failed = True
                if failed:
                    break
        if len(set(vals[:50])) >= 3:
            run.nontriv((pattern, mag, offset, n, round(alpha, 6)))
        if len(run.samples) < 2:
            run.sample({**replay, "first_values": vals[:4], "float_mean": w.mean, "float_var": w.var, "float_smoothed": e.get()})
    # ---------------- SlidingWindowTracker: close to the exact statistics of the window, whatever passed through before
    try:
        from ixai.utils.tracker import SlidingWindowTracker
        for k in (3, 8, 50):
            for pattern in ("falling-magnitudes", "outliers", "offset"):
                n = 40 * k if not thorough else 400 * k
                if pattern == "falling-magnitudes":
                    vals = [rnd.uniform(0.5, 2.0) * 10.0 ** (8 - 16 * i / n) for i in range(n)]
                elif pattern == "outliers":
                    vals = [rnd.choice([1e16, -1e14]) if rnd.random() < 0.05 else rnd.uniform(0.5, 2.0) for i in range(n)]
                else:
                    vals = [1e9 + rnd.random() for _ in range(n)]
                tr = SlidingWindowTracker(k)
                for i, v in enumerate(vals):
                    tr.update(v)
                    if i % 3 and i != n - 1:
                        continue
                    win = [Fraction(x) for x in vals[max(0, i + 1 - k):i + 1]]
                    m = len(win)
                    mean_x = sum(win) / m
                    var_x = sum((x - mean_x) ** 2 for x in win) / m
                    mxw = max(abs(float(x)) for x in win)
                    fm, fv = float(tr.mean), float(tr.var)
                    run.ok(2, kind="sliding-window-bounds")
                    b_m = (2 * m + 8) * EPS * mxw
                    bad = not (math.isfinite(fm) and math.isfinite(fv)) or abs(Fraction(fm) - mean_x) > b_m
                    if var_x > 0:
                        kappa = math.sqrt(1 + float(mean_x * mean_x / var_x))
                        bad = bad or abs(Fraction(fv) - var_x) / var_x > 4 * m * EPS * kappa + 16 * EPS
                    if bad:
                        run.violation("sliding-window-error", f"SlidingWindowTracker(k={k}) {pattern} after {i + 1} updates: mean {fm!r} (exact "
                                                              f"{float(mean_x)!r}, bound {b_m:.3g}), var {fv!r} (exact {float(var_x)!r})",
                                      {"k": k, "pattern": pattern, "n": i + 1, "seed": run.shard_seed})
                        break
                run.nontriv(("sw", k, pattern, sh))
    except ImportError:
        pass
    # ---------------- explainer runs driven by ill-conditioned loss sequences
    from ixai.explainer import IncrementalPFI, IncrementalSage
    from ixai.storage import GeometricReservoirStorage
    n_runs = 2 if not thorough else 6
    for r in range(n_runs):
        cls = [IncrementalPFI, IncrementalSage][(r + sh) % 2]
        dyn = rnd.random() < 0.5
        alpha = rnd.choice([0.001, 0.01, 0.1, 0.5])
        d = rnd.choice([2, 3, 4])
        n_inner = rnd.choice([1, 2, 3])
        steps = 400 if not thorough else 3000
        pattern, mag, offset = rnd.choice(PATTERNS), rnd.choice([1e-8, 1.0, 1e8]), rnd.choice([0.0, 1e3, 1e9])
        nloss = steps * (2 + d * max(n_inner, 4) + d) + 10
        seq = gen(random.Random(rnd.randrange(2 ** 31)), nloss, pattern, mag, offset)
        seed = rnd.randrange(2 ** 31)
        names = [[f"f{j}" for j in range(d)], [3, 0, 2, 1][:d], [2.5, -1, "b", 0][:d]][r % 3]     # (list order differs from set / sorted order)
        results = []
        exact_var = None
        for exact in (False, True):
            if exact and cls is IncrementalPFI:
                # independent exact reference for PFI, straight from the statement: contribution = mean of the n inner losses
                # of a feature minus the original loss (losses are consumed in call order), then the exact running statistic
                it = iter(seq)
                stat = {nm: Fraction(0) for nm in names}
                vstat = {nm: Fraction(0) for nm in names}
                a_x = Fraction(alpha)
                for t in range(1, steps):
                    n_used = 4 if t % 5 == 4 else n_inner
                    l0 = Fraction(next(it))
                    cs = {}
                    for nm in names:
                        c = sum(Fraction(next(it)) for _ in range(n_used)) / n_used - l0
                        cs[nm] = c
                        stat[nm] = (1 - a_x) * stat[nm] + a_x * c if dyn else stat[nm] + (c - stat[nm]) / t
                    for nm in names:      # variance: running statistic of the squared deviation from the UPDATED estimate
                        dv = (cs[nm] - stat[nm]) ** 2
                        vstat[nm] = (1 - a_x) * vstat[nm] + a_x * dv if dyn else vstat[nm] + (dv - vstat[nm]) / t
                results.append({nm: Q(v) for nm, v in stat.items()})
                exact_var = vstat
                continue
            random.seed(seed)
            np.random.seed(seed)
            it = iter(seq)

            def loss(y, p, it=it, exact=exact):
                v = next(it)
                return Q(v) if exact else v

            def model(x):
                return {"output": 1.0}
            st = GeometricReservoirStorage(size=5, store_targets=False)
            a = Q(alpha) if exact else alpha
            kw = dict(storage=st, smoothing_alpha=a, n_inner_samples=n_inner, dynamic_setting=dyn)
            e = cls(model, loss, names, **kw)
            srnd = random.Random(seed)
            for t in range(steps):
                if t % 5 == 4:      # per-call override of the inner-sample count (documented argument)
                    e.explain_one({nm: srnd.random() for nm in names}, 0.0, n_inner_samples=4)
                else:
                    e.explain_one({nm: srnd.random() for nm in names}, 0.0)
            results.append(dict(e.importance_values))
            if not exact:
                fvar = dict(e.variances)
        fl, ex = results
        mxl = max(abs(v) for v in seq)
        bound = 4 * EPS * mxl * (d + 2) * max(steps, 2 / alpha if dyn else steps)
        tag = f"{cls.__name__} dyn={dyn} alpha={alpha} d={d} n_inner={n_inner} losses {pattern} mag={mag:g} offset={offset:g}"
        replay = {"explainer": cls.__name__, "dynamic": dyn, "alpha": alpha, "d": d, "n_inner": n_inner, "steps": steps, "pattern": pattern,
                  "magnitude": mag, "offset": offset, "seed": seed}
        for nm in names:
            run.ok(kind="explainer-bounds")
            err = abs(Fraction(float(fl[nm])) - ex[nm].f)
            worst["explainer"] = max(worst["explainer"], float(err) / bound)
            if not math.isfinite(float(fl[nm])) or not math.isfinite(float(fvar[nm])) or float(fvar[nm]) < 0:
                run.violation("non-finite", f"{tag}: importance {fl[nm]!r} variance {fvar[nm]!r}", replay)
            elif err > bound:
                run.violation("explainer-error", f"{tag}: |float - exact| = {float(err):.3g} > bound {bound:.3g} for {nm}", replay)
            elif exact_var is not None:
                # the variance estimate against its exact value: squares of deviations of size <= 2*max|loss|, same accumulation bound
                verr = abs(Fraction(float(fvar[nm])) - exact_var[nm])
                vbound = 16 * EPS * (2 * mxl) ** 2 * (d + 2) * max(steps, 2 / alpha if dyn else steps)
                run.ok(kind="explainer-variance-bounds")
                if verr > vbound:
                    run.violation("explainer-error", f"{tag}: variance of {nm!r}: |float - exact| = {float(verr):.3g} > bound {vbound:.3g} "
                                                     f"(float {float(fvar[nm])!r}, exact {float(exact_var[nm])!r})", replay)
        run.nontriv(("expl", cls.__name__, dyn, alpha, d, n_inner, pattern, mag, offset))
        if len(run.samples) < 3:
            run.sample({**replay, "float_importance": fl, "exact_importance": {k: float(v) for k, v in ex.items()}, "bound": bound})
    # ---------------- SAGE runs on class-probability outputs of very different magnitudes (1 next to 1e-20, 1e8 next to 1e-8): the
    # normalised marginal prediction stays within a few n*eps (relative) of the exact quotient, and every result stays finite
    for r in range(12 if not thorough else 36):
        if r % nsh != sh % 12 and nsh > 1 and not thorough:
            continue
        dyn = r % 2 == 0
        alpha = rnd.choice([0.01, 0.1, 0.5])
        big, small = [(1.0, 1e-20), (1e8, 1e-8), (1.0, 1e-9), (0.75, 0.25)][(r // 2) % 4]
        order = r % 4 < 2               # which label comes first in the output dicts
        third = r % 5 == 0              # a third label that some outputs omit
        HI, LO = [("hi", "lo"), ("lo", "hi"), (0, 1), (1, 0), ("neg", "pos"), ("pos", "neg")][r % 6]   # (names decide the tracker's key order)
        steps = 150 if not thorough else 600
        names = ["a", "b"]

        def model(x, big=big, small=small, order=order, third=third, HI=HI, LO=LO):
            pb, ps = big * (1 + 0.25 * x["a"]), small * (1 + x["b"])
            out = {HI: pb, LO: ps} if order else {LO: ps, HI: pb}
            if third and x["a"] > 0.5:
                out["mid"] = math.sqrt(big * small) * (1 + x["b"])
            return out

        def loss(y, p):
            return -math.log(p.get(y, 0.0) + 1e-300)
        random.seed(1000 + r)
        e = IncrementalSage(model, loss, names, smoothing_alpha=alpha, n_inner_samples=2, dynamic_setting=dyn,
                            storage=GeometricReservoirStorage(size=5, store_targets=False))
        srnd = random.Random(77 + r + run.shard_seed)
        hist = {}
        tcount = 0
        bad = False
        for t in range(steps):
            x = {"a": srnd.random(), "b": srnd.random()}
            y = srnd.choice([HI, LO])
            e.explain_one(x, y)
            if t == 0:
                continue
            out = model(x)
            tcount += 1
            for lab in out:
                hist.setdefault(lab, [])
            for lab in hist:
                hist[lab].append(Fraction(out.get(lab, 0.0)))
            ex = {}
            a_x = Fraction(alpha)
            for lab, vs in hist.items():
                if dyn:
                    acc = Fraction(0)
                    for v in vs:
                        acc = (1 - a_x) * acc + a_x * v
                    ex[lab] = acc
                else:
                    ex[lab] = sum(vs) / len(vs)
            if t % 10 != 3 and t != steps - 1:
                continue
            tot = sum(ex.values())
            mp = e.marginal_prediction
            run.ok(kind="probability-outputs")
            tol = 64 * EPS * max(tcount, 2 / alpha)
            vals = list(e.importance_values.values()) + list(e.variances.values()) + [e.marginal_loss, e.model_loss] + list(mp.values())
            replay = {"dynamic": dyn, "alpha": alpha, "magnitudes": [big, small], "first_label_hi": order, "third_label": third, "step": t}
            if not all(math.isfinite(float(v)) for v in vals):
                run.violation("non-finite", f"IncrementalSage on probability outputs of magnitudes {big:g}/{small:g} (dyn={dyn}, alpha={alpha}) step {t}: "
                                            f"importance {e.importance_values!r} variances {e.variances!r} marginal_loss {e.marginal_loss!r}", replay)
                bad = True
            elif set(mp) != set(ex) or any(abs(Fraction(float(mp[lab])) - ex[lab] / tot) > tol * (ex[lab] / tot) for lab in ex):
                run.violation("explainer-error", f"IncrementalSage marginal prediction on outputs of magnitudes {big:g}/{small:g} (dyn={dyn}, alpha={alpha}) step {t}: "
                                                 f"{mp!r}, exact quotients { {lab: float(ex[lab] / tot) for lab in ex} !r} (relative tolerance {tol:.2g})", replay)
                bad = True
            if bad:
                break
        run.nontriv(("prob-outputs", r, run.shard[0]))
    for k, v in worst.items():
        run.notes["worst_error_over_bound_" + k] = v
