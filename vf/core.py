"""Verdicts, evidence, known findings, anchor coverage, sharding (DESIGN 2.7-2.10)."""
import collections
import hashlib
import json
import os
import subprocess
import sys
import time
import warnings

VERIF = os.path.dirname(os.path.dirname(os.path.abspath(__file__)))
REPO = os.path.abspath(os.environ.get("VF_REPO", "/repo"))
EPS_BUDGET = 1e-9          # total false-alarm budget of one statistical run


def import_ixai():
    """Import the library from the tree under check and make sure that is what we got."""
    if sys.path[0] != REPO:
        sys.path.insert(0, REPO)
    warnings.filterwarnings("ignore")
    import ixai  # noqa
    f = os.path.abspath(ixai.__file__)
    if not f.startswith(REPO + os.sep):
        raise SystemExit(f"INCONCLUSIVE: ixai imported from {f}, not from {REPO}")
    return ixai


def tree_identity():
    def git(*a):
        try:
            return subprocess.run(["git", "-C", REPO] + list(a), capture_output=True, text=True,
                                  timeout=60).stdout
        except Exception as e:  # pragma: no cover
            return f"<{e}>"
    head = git("rev-parse", "HEAD").strip()
    diff = git("diff", "HEAD", "--", "ixai")
    return {"repo": REPO, "head": head,
            "worktree_diff_sha256": hashlib.sha256(diff.encode()).hexdigest()[:16],
            "dirty": bool(diff.strip())}


def jsonable(o, depth=0):
    """Best-effort conversion of a case description to JSON."""
    from fractions import Fraction
    if depth > 8:
        return repr(o)
    if o is None or isinstance(o, (bool, int, str)):
        return o
    if isinstance(o, float):
        return o if o == o and abs(o) != float("inf") else repr(o)
    if isinstance(o, Fraction):
        return f"{o.numerator}/{o.denominator}"
    if hasattr(o, "f") and isinstance(getattr(o, "f"), Fraction):
        return f"Q({o.f.numerator}/{o.f.denominator})"
    if isinstance(o, dict):
        return {str(k) if not isinstance(k, str) else k: jsonable(v, depth + 1) for k, v in o.items()}
    if isinstance(o, (list, tuple, set, frozenset, collections.deque)):
        return [jsonable(v, depth + 1) for v in o]
    try:
        import numpy as np
        if isinstance(o, np.generic):
            return jsonable(o.item(), depth + 1)
        if isinstance(o, np.ndarray):
            return jsonable(o.tolist(), depth + 1)
    except Exception:
        pass
    return repr(o)


def stable_hash(o):
    return hashlib.sha256(json.dumps(jsonable(o), sort_keys=True, default=repr).encode()).hexdigest()[:16]


class Coverage:
    """Anchor coverage via sys.monitoring: which functions / lines of the tree under check ran.
    Callbacks return DISABLE, so every location costs one event."""
    TOOL = 3

    def __init__(self):
        self.lines = set()
        self.funcs = set()
        self.on = False

    def start(self):
        mon = getattr(sys, "monitoring", None)
        if mon is None:
            return
        try:
            mon.use_tool_id(self.TOOL, "vf-anchor-coverage")
        except ValueError:
            return
        prefix = REPO + os.sep + "ixai" + os.sep

        def on_line(code, line):
            fn = code.co_filename
            if fn.startswith(prefix):
                self.lines.add((fn[len(REPO) + 1:], line))
            return mon.DISABLE

        def on_start(code, off):
            fn = code.co_filename
            if fn.startswith(prefix):
                self.funcs.add(fn[len(REPO) + 1:] + ":" + code.co_qualname)
            return mon.DISABLE
        mon.register_callback(self.TOOL, mon.events.LINE, on_line)
        mon.register_callback(self.TOOL, mon.events.PY_START, on_start)
        mon.set_events(self.TOOL, mon.events.LINE | mon.events.PY_START)
        self.on = True

    def stop(self):
        if self.on:
            mon = sys.monitoring
            mon.set_events(self.TOOL, 0)
            mon.free_tool_id(self.TOOL)
            self.on = False


class Run:
    """One execution of one property check: counters, verdict, evidence."""

    def __init__(self, pid, tier, seed, shard=(0, 1)):
        self.pid, self.tier, self.seed, self.shard = pid, tier, seed, shard
        self.level = "exploration"
        self.rule = ""
        self.assumptions = []
        self.evaluations = 0
        self.nontrivial = set()
        self.samples = []
        self.counters = collections.Counter()
        self.observed = collections.defaultdict(set)
        self.violations = []          # dicts: mechanism, message, replay
        self.violation_count = collections.Counter()
        self.other_errors = collections.Counter()
        self.inconclusive = []
        self.required = []            # anchor functions that must have been reached
        self.required_counters = []   # counters that must be > 0 for the run to be conclusive
        self.notes = {}
        self.exhaustive = None
        self.cov = Coverage()
        self.t0 = time.time()
        self.shard_seed = seed * 1000003 + shard[0]

    # ---- recording -------------------------------------------------------------------------
    def ok(self, n=1, kind=None):
        self.evaluations += n
        if kind:
            self.counters["eval:" + kind] += n

    def count(self, name, n=1):
        self.counters[name] += n

    def see(self, name, value, cap=100000):
        s = self.observed[name]
        if len(s) < cap:
            s.add(value if isinstance(value, (str, int, tuple, frozenset)) else stable_hash(value))

    def nontriv(self, key):
        self.nontrivial.add(key if isinstance(key, str) else stable_hash(key))

    def sample(self, obj, cap=4):
        if len(self.samples) < cap:
            self.samples.append(jsonable(obj))

    def other_error(self, what):
        self.other_errors[str(what)[:160]] += 1

    def violation(self, mechanism, message, replay=None):
        self.violation_count[mechanism] += 1
        if sum(1 for v in self.violations if v["mechanism"] == mechanism) < 3:
            self.violations.append({"mechanism": mechanism, "message": str(message)[:2000],
                                    "replay": jsonable(replay)})

    def require(self, *funcs):
        self.required.extend(funcs)

    def require_count(self, *names):
        self.required_counters.extend(names)

    def unreachable(self, why):
        self.inconclusive.append(why)

    def time_left(self, budget_s):
        return budget_s - (time.time() - self.t0)

    def resolve_required(self):
        """A required anchor names a PUBLIC function ("ixai/x.py:Class.method").  A refactoring may move its body elsewhere
        (a base class, a helper module): the anchor counts as executed when the code object the public name resolves to ran."""
        import importlib
        for spec in self.required:
            if spec in self.cov.funcs or ":" not in spec:
                continue
            fn, qual = spec.split(":", 1)
            try:
                obj = importlib.import_module(fn[:-3].replace("/", "."))
                for part in qual.split("."):
                    obj = getattr(obj, part)
                seen = 0
                while not hasattr(obj, "__code__") and seen < 6:
                    obj = getattr(obj, "__func__", None) or getattr(obj, "__wrapped__", None) or getattr(obj, "fget", None)
                    seen += 1
                code = obj.__code__
                cf = code.co_filename
                if cf.startswith(REPO + os.sep) and (cf[len(REPO) + 1:] + ":" + code.co_qualname) in self.cov.funcs:
                    self.cov.funcs.add(spec)
            except Exception:
                continue

    # ---- partials (sharding) ---------------------------------------------------------------
    def to_partial(self):
        self.resolve_required()
        return {"evaluations": self.evaluations, "nontrivial": sorted(self.nontrivial),
                "samples": self.samples, "counters": dict(self.counters),
                "observed": {k: sorted(map(repr, v))[:200000] for k, v in self.observed.items()},
                "violations": self.violations, "violation_count": dict(self.violation_count),
                "other_errors": dict(self.other_errors), "inconclusive": self.inconclusive,
                "required": self.required, "required_counters": self.required_counters, "notes": self.notes, "rule": self.rule,
                "assumptions": self.assumptions, "level": self.level, "exhaustive": self.exhaustive,
                "cov_lines": sorted(self.cov.lines), "cov_funcs": sorted(self.cov.funcs)}

    def merge(self, p):
        self.evaluations += p["evaluations"]
        self.nontrivial.update(p["nontrivial"])
        for s in p["samples"]:
            self.sample(s)
        self.counters.update(p["counters"])
        for k, v in p["observed"].items():
            self.observed[k].update(v)
        for v in p["violations"]:
            if sum(1 for w in self.violations if w["mechanism"] == v["mechanism"]) < 3:
                self.violations.append(v)
        self.violation_count.update(p["violation_count"])
        self.other_errors.update(p["other_errors"])
        self.inconclusive.extend(p["inconclusive"])
        self.required = sorted(set(self.required) | set(p["required"]))
        self.required_counters = sorted(set(self.required_counters) | set(p.get("required_counters", [])))
        for k, v in p["notes"].items():
            if k in self.notes and isinstance(v, (int, float)) and isinstance(self.notes[k], (int, float)):
                self.notes[k] = max(self.notes[k], v)
            else:
                self.notes.setdefault(k, v)
        self.rule = p["rule"] or self.rule
        self.assumptions = p["assumptions"] or self.assumptions
        self.level = p["level"]
        if p["exhaustive"] is not None:
            self.exhaustive = p["exhaustive"] if self.exhaustive is None else (self.exhaustive and p["exhaustive"])
        self.cov.lines.update(map(tuple, p["cov_lines"]))
        self.cov.funcs.update(p["cov_funcs"])

    # ---- verdict ---------------------------------------------------------------------------
    def finish(self):
        """Write evidence, print verdict lines, return exit code (0 held, 1 violated, 2 inconclusive)."""
        known = load_known_open(self.pid)
        new, hits = [], []
        for v in self.violations:
            k = next((kf for kf in known if kf["mechanism"] == v["mechanism"]), None)
            (hits if k else new).append((v, k))
        if "ixai" in sys.modules:
            self.resolve_required()
        missing = [f for f in self.required if f not in self.cov.funcs]
        if self.cov.funcs or self.cov.lines:
            if missing:
                self.inconclusive.append("anchor functions never executed: " + ", ".join(missing))
        for c in sorted(set(self.required_counters)):
            if self.counters.get(c, 0) == 0:
                self.inconclusive.append(f"deciding situation never observed: counter '{c}' is 0")
        if self.evaluations == 0:
            self.inconclusive.append("deciding monitor was evaluated 0 times")
        if len(self.nontrivial) < 2:
            self.inconclusive.append("fewer than 2 distinct non-trivial cases")
        evdir = os.environ.get("VF_EVIDENCE_DIR") or os.path.join(VERIF, "evidence")
        os.makedirs(evdir, exist_ok=True)
        rdir = os.path.join(os.environ.get("VF_EVIDENCE_DIR") or VERIF, "replays", self.pid)   # scratch runs keep their replays apart
        replay_paths = []
        if new:
            os.makedirs(rdir, exist_ok=True)
            for i, (v, _) in enumerate(new):
                path = os.path.join(rdir, f"{self.tier}-seed{self.seed}-{i}.json")
                with open(path, "w") as fh:
                    json.dump({"property": self.pid, "tier": self.tier, "seed": self.seed, **v}, fh, indent=1)
                replay_paths.append(path)
        by_file = collections.Counter(f for f, _ in self.cov.lines)
        verdict = "violated" if new else ("inconclusive" if self.inconclusive else "held")
        cov = {
            "evaluations": self.evaluations,
            "distinct_nontrivial": len(self.nontrivial),
            "rule": self.rule,
            "samples": self.samples or [],
            "counters": dict(sorted(self.counters.items())),
            "distinct_observed": {k: len(v) for k, v in sorted(self.observed.items())},
            "errors_attributed_to_other_properties": dict(self.other_errors),
            "anchor_lines_executed": dict(sorted(by_file.items())),
            "anchor_functions_required": sorted(set(self.required)),
            "anchor_functions_missing": missing,
            "notes": jsonable(self.notes),
            "verdict": verdict,
            "inconclusive_reasons": self.inconclusive,
            "violation_mechanisms": dict(self.violation_count),
            "known_findings_matched": sorted({k["mechanism"] for _, k in hits}),
            "tree": tree_identity(),
            "shards": self.shard[1],
        }
        if self.exhaustive is not None:
            cov["exhaustive"] = bool(self.exhaustive)
        ev = {"property_id": self.pid, "tier": self.tier, "seed": self.seed, "level": self.level,
              "coverage": cov, "assumptions": self.assumptions,
              "wall_s": round(time.time() - self.t0, 2), "violations": len(new)}
        with open(os.path.join(evdir, self.pid + ".json"), "w") as fh:
            json.dump(ev, fh, indent=1, sort_keys=False)
            fh.write("\n")
        for _, k in {k["mechanism"]: (v, k) for v, k in hits}.values():
            print(f"KNOWN-FINDING: property={self.pid} {k['what']}")
        for (v, _), path in zip(new, replay_paths):
            print(f"VIOLATION property={self.pid} replay={path}")
            print(f"  mechanism={v['mechanism']}: {v['message'][:600]}")
        print(f"{self.pid} {self.tier} seed={self.seed}: {verdict}; evaluations={self.evaluations} "
              f"distinct_nontrivial={len(self.nontrivial)} wall={ev['wall_s']}s "
              f"counters={dict(list(sorted(self.counters.items()))[:12])}")
        for r in self.inconclusive:
            print("  INCONCLUSIVE:", r)
        return 1 if new else (2 if self.inconclusive else 0)


def load_known_open(pid):
    path = os.path.join(VERIF, "known_findings.json")
    try:
        with open(path) as fh:
            data = json.load(fh)
    except FileNotFoundError:
        return []
    return [k for k in data.get("open", []) if k.get("property") == pid]


class ConfigTimeout(BaseException):
    """Raised by the per-configuration wall-clock guard (a BaseException: the monitors' `except Exception` clauses, which turn
    library exceptions into violations, must not see it)."""


class config_guard:
    """with config_guard(run, seconds): ... - abandons ONE configuration that runs for too long (exact rationals can explode in size);
    the configuration is counted under 'configurations-abandoned-by-time-guard', never judged."""

    def __init__(self, run, seconds=240):
        self.run, self.seconds = run, seconds

    def __enter__(self):
        import signal

        def on_alarm(signum, frame):
            raise ConfigTimeout()
        try:
            self.old = signal.signal(signal.SIGALRM, on_alarm)
            signal.alarm(self.seconds)
        except ValueError:          # not in the main thread
            self.old = None
        return self

    def __exit__(self, et, ev, tb):
        import signal
        if self.old is not None:
            signal.alarm(0)
            signal.signal(signal.SIGALRM, self.old)
        if et is ConfigTimeout:
            self.run.count("configurations-abandoned-by-time-guard")
            return True
        return False
