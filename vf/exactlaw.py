"""Exact outcome law of a randomised scenario under the implementation's OWN use of the global generators.

The scenario is re-executed with scripted generators (Python's `random` module functions and NumPy's global
`np.random.*` functions).  Every discrete draw is enumerated exhaustively with its exact weight (1/n for an integer
below n, 1/2^k for k random bits, 1/n! for a permutation of n items); a float draw in [0,1) is handled by locating
the break points of the (piecewise constant) conditional outcome law by grid evaluation + bisection.  The result is the
exact probability of every observed outcome - no sampling error, so even a tiny bias in a small configuration shows.

Assumption (stated in DESIGN): the behaviour is a piecewise constant function of each float draw with at most a few
break points (threshold comparisons, integer scaling); continuous use of a float (e.g. Algorithm L's skip lengths) is
outside this engine and stays with the statistical monitors."""
import contextlib
import itertools
import math
import random
from fractions import Fraction

import numpy as np


class NeedChoice(Exception):
    def __init__(self, kind, arity):
        self.kind, self.arity = kind, arity


class PathRNG(random.Random):
    """Python-side scripted generator: consumes a script of choices; raises NeedChoice at the first unscripted draw."""

    def __init__(self, script):
        super().__init__(0)
        self.script, self.pos = script, 0

    def _take(self, kind, arity):
        if self.pos >= len(self.script):
            raise NeedChoice(kind, arity)
        c = self.script[self.pos]
        self.pos += 1
        return c

    def random(self):
        return self._take("float", None)

    def _randbelow(self, n):
        return self._take("int", n)

    def getrandbits(self, k):
        return self._take("int", 2 ** k)


@contextlib.contextmanager
def installed(rng):
    saved, nsaved = {}, {}
    for name in random.__all__:
        obj = getattr(random, name, None)
        if getattr(obj, "__self__", None) is random._inst:
            saved[name] = obj
            setattr(random, name, getattr(rng, name))

    def permutation(x):
        items = list(range(x)) if isinstance(x, (int, np.integer)) else list(x)
        idx = rng._take("int", math.factorial(len(items)))
        perm = next(itertools.islice(itertools.permutations(range(len(items))), idx, None))
        out = [items[i] for i in perm]
        return np.array(out) if isinstance(x, (int, np.integer)) or isinstance(x, np.ndarray) else np.array(out, dtype=object)

    def shuffle(x):
        n = len(x)
        idx = rng._take("int", math.factorial(n))
        perm = next(itertools.islice(itertools.permutations(range(n)), idx, None))
        vals = [x[i] for i in perm]
        for i, v in enumerate(vals):
            x[i] = v

    def randint(low, high=None, size=None, dtype=int):
        if high is None:
            low, high = 0, low
        if size is not None:
            return np.array([low + rng._take("int", int(high - low)) for _ in range(int(np.prod(size)))]).reshape(size)
        return low + rng._take("int", int(high - low))

    def rnd_float(size=None):
        if size is not None:
            return np.array([rng._take("float", None) for _ in range(int(np.prod(size)))]).reshape(size)
        return rng._take("float", None)

    def choice(a, size=None, replace=True, p=None):
        items = list(range(a)) if isinstance(a, (int, np.integer)) else list(a)
        if p is not None or size is not None or not replace:
            raise NotImplementedError("scripted np.random.choice supports the plain form only")
        return items[rng._take("int", len(items))]
    patched = {"permutation": permutation, "shuffle": shuffle, "randint": randint, "random": rnd_float,
               "random_sample": rnd_float, "rand": lambda *a: rnd_float(a if a else None), "choice": choice}
    for k, v in patched.items():
        nsaved[k] = getattr(np.random, k)
        setattr(np.random, k, v)
    try:
        yield rng
    finally:
        for k, v in saved.items():
            setattr(random, k, v)
        for k, v in nsaved.items():
            setattr(np.random, k, v)


class Budget(Exception):
    pass


def exact_law(scenario, grid=24, bisect=44, max_runs=400000):
    """scenario() -> hashable outcome; executed many times under scripted generators.
    Returns (dict outcome -> Fraction probability, number of executions, number of float draw sites analysed)."""
    stats = {"runs": 0, "float_sites": 0}

    def run(script):
        stats["runs"] += 1
        if stats["runs"] > max_runs:
            raise Budget()
        rng = PathRNG(script)
        with installed(rng):
            try:
                return ("done", scenario())
            except NeedChoice as nc:
                return ("need", nc.kind, nc.arity)

    def law(script):
        r = run(script)
        if r[0] == "done":
            return {r[1]: Fraction(1)}
        _, kind, arity = r
        out = {}
        if kind == "int":
            w = Fraction(1, arity)
            for c in range(arity):
                for o, p in law(script + [c]).items():
                    out[o] = out.get(o, 0) + w * p
            return out
        # float draw: piecewise constant conditional law on [0,1)
        stats["float_sites"] += 1
        top = 1 - 2.0 ** -53
        pts = [0.0] + [(j + 0.5) / grid for j in range(grid)] + [top]
        laws = [law(script + [u]) for u in pts]
        cuts = []              # (break point, law to the left of it)

        def segment(lo, llo, hi, lhi, depth):
            """Append the break points inside (lo, hi]; the law is llo just right of lo and lhi at hi."""
            if llo == lhi:
                return
            if depth >= bisect or (hi - lo) <= 2.0 ** -46:
                cuts.append((hi, llo))
                return
            mid = (lo + hi) / 2
            if mid == lo or mid == hi:
                cuts.append((hi, llo))
                return
            lm = law(script + [mid])
            segment(lo, llo, mid, lm, depth + 1)
            segment(mid, lm, hi, lhi, depth + 1)
        for j in range(len(pts) - 1):
            segment(pts[j], laws[j], pts[j + 1], laws[j + 1], 0)
        pieces, left = [], Fraction(0)
        for b, l in cuts:
            pieces.append((left, Fraction(b), l))
            left = Fraction(b)
        pieces.append((left, Fraction(1), laws[-1]))
        for a, b, l in pieces:
            for o, p in l.items():
                out[o] = out.get(o, 0) + (b - a) * p
        return out
    result = law([])
    return result, stats["runs"], stats["float_sites"]
