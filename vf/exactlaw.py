"""Exact outcome law of a randomised scenario under the implementation's OWN use of the global generators.

The scenario is re-executed with scripted generators (Python's `random` module functions and NumPy's global
`np.random.*` functions).  Every discrete draw is enumerated exhaustively with its exact weight (1/n for an integer
below n, 1/2^k for k random bits, 1/n! for a permutation of n items); a float draw in [0,1) is handled by locating
the break points of the (piecewise constant) conditional outcome law by grid evaluation + bisection.  The result is the
exact probability of every observed outcome - no sampling error, so even a tiny bias in a small configuration shows.

Assumption (stated in DESIGN): the behaviour is a piecewise constant function of each float draw with at most a few
break points (threshold comparisons, integer scaling); continuous use of a float (e.g. Algorithm L's skip lengths) is
outside this engine and stays with the statistical monitors."""
import contextlib
import itertools
import math
import random
from fractions import Fraction

import numpy as np


class NeedChoice(Exception):
    def __init__(self, kind, arity):
        self.kind, self.arity = kind, arity


class PathRNG(random.Random):
    """Python-side scripted generator: consumes a script of choices; raises NeedChoice at the first unscripted draw."""

    fixed_float = None       # when set, every float draw returns this constant (only the integer / bit draws are enumerated)

    def __init__(self, script):
        super().__init__(0)
        self.script, self.pos = script, 0

    def _take(self, kind, arity):
        if self.pos >= len(self.script):
            raise NeedChoice(kind, arity)
        c = self.script[self.pos]
        self.pos += 1
        return c

    def random(self):
        if self.fixed_float is not None:
            return self.fixed_float
        return self._take("float", None)

    def _randbelow(self, n):
        return self._take("int", n)

    def getrandbits(self, k):
        return self._take("int", 2 ** k)


@contextlib.contextmanager
def installed(rng):
    saved, nsaved = {}, {}
    for name in random.__all__:
        obj = getattr(random, name, None)
        if getattr(obj, "__self__", None) is random._inst:
            saved[name] = obj
            setattr(random, name, getattr(rng, name))

    def permutation(x):
        items = list(range(x)) if isinstance(x, (int, np.integer)) else list(x)
        idx = rng._take("int", math.factorial(len(items)))
        perm = next(itertools.islice(itertools.permutations(range(len(items))), idx, None))
        out = [items[i] for i in perm]
        return np.array(out) if isinstance(x, (int, np.integer)) or isinstance(x, np.ndarray) else np.array(out, dtype=object)

    def shuffle(x):
        n = len(x)
        idx = rng._take("int", math.factorial(n))
        perm = next(itertools.islice(itertools.permutations(range(n)), idx, None))
        vals = [x[i] for i in perm]
        for i, v in enumerate(vals):
            x[i] = v

    def randint(low, high=None, size=None, dtype=int):
        if high is None:
            low, high = 0, low
        if size is not None:
            return np.array([low + rng._take("int", int(high - low)) for _ in range(int(np.prod(size)))]).reshape(size)
        return low + rng._take("int", int(high - low))

    def rnd_float(size=None):
        if size is not None:
            return np.array([rng.random() for _ in range(int(np.prod(size)))]).reshape(size)
        return rng.random()

    def choice(a, size=None, replace=True, p=None):
        items = list(range(a)) if isinstance(a, (int, np.integer)) else list(a)
        if p is not None or size is not None or not replace:
            raise NotImplementedError("scripted np.random.choice supports the plain form only")
        return items[rng._take("int", len(items))]
    patched = {"permutation": permutation, "shuffle": shuffle, "randint": randint, "random": rnd_float,
               "random_sample": rnd_float, "rand": lambda *a: rnd_float(a if a else None), "choice": choice}
    for k, v in patched.items():
        nsaved[k] = getattr(np.random, k)
        setattr(np.random, k, v)
    try:
        yield rng
    finally:
        for k, v in saved.items():
            setattr(random, k, v)
        for k, v in nsaved.items():
            setattr(np.random, k, v)


class Budget(Exception):
    pass


UNRESOLVED = ("unresolved-probability-mass",)


def exact_law(scenario, grid=24, bisect=44, max_runs=400000, fixed_float=None, max_depth=14, max_seconds=25.0):
    """scenario() -> hashable outcome; executed many times under scripted generators.
    Returns (dict outcome -> Fraction probability, number of executions, number of float draw sites analysed)."""
    import time as _time
    stats = {"runs": 0, "float_sites": 0}
    t_end = _time.time() + max_seconds

    def run(script):
        stats["runs"] += 1
        if stats["runs"] > max_runs or (stats["runs"] % 64 == 0 and _time.time() > t_end):
            raise Budget()       # (execution or wall-clock budget of ONE enumeration: the caller skips this sub-monitor)
        rng = PathRNG(script)
        rng.fixed_float = fixed_float
        with installed(rng):
            try:
                return ("done", scenario())
            except NeedChoice as nc:
                return ("need", nc.kind, nc.arity)
            except RecursionError:
                # (an implementation that retries by calling itself: the scripted generator can keep choosing the retry branch)
                return ("done", UNRESOLVED)

    def law(script):
        if len(script) > max_depth:
            # rejection / retry loops are infinite trees: beyond max_depth draws the remaining mass is reported as UNRESOLVED
            # (callers compare probabilities up to that mass)
            return {UNRESOLVED: Fraction(1)}
        r = run(script)
        if r[0] == "done":
            return {r[1]: Fraction(1)}
        _, kind, arity = r
        out = {}
        if kind == "int":
            w = Fraction(1, arity)
            for c in range(arity):
                for o, p in law(script + [c]).items():
                    out[o] = out.get(o, 0) + w * p
            return out
        # float draw: piecewise constant conditional law on [0,1)
        stats["float_sites"] += 1
        top = 1 - 2.0 ** -53
        pts = [0.0] + [(j + 0.5) / grid for j in range(grid)] + [top]
        laws = [law(script + [u]) for u in pts]
        cuts = []              # (break point, law to the left of it)

        def segment(lo, llo, hi, lhi, depth):
            """Append the break points inside (lo, hi]; the law is llo just right of lo and lhi at hi."""
            if llo == lhi:
                return
            if depth >= bisect or (hi - lo) <= 2.0 ** -46:
                cuts.append((hi, llo))
                return
            mid = (lo + hi) / 2
            if mid == lo or mid == hi:
                cuts.append((hi, llo))
                return
            lm = law(script + [mid])
            segment(lo, llo, mid, lm, depth + 1)
            segment(mid, lm, hi, lhi, depth + 1)
        for j in range(len(pts) - 1):
            segment(pts[j], laws[j], pts[j + 1], laws[j + 1], 0)
        pieces, left = [], Fraction(0)
        for b, l in cuts:
            pieces.append((left, Fraction(b), l))
            left = Fraction(b)
        pieces.append((left, Fraction(1), laws[-1]))
        for a, b, l in pieces:
            for o, p in l.items():
                out[o] = out.get(o, 0) + (b - a) * p
        return out
    result = law([])
    return result, stats["runs"], stats["float_sites"]


def replaced_slot_law(make, k, fixed_float, max_updates=400, max_runs=80000):
    """Exact law of WHICH slot a reservoir overwrites at its first replacement, with every float draw pinned to `fixed_float`
    (so that the admission schedule is deterministic) and every integer / bit draw enumerated with its exact weight.
    Returns (law, executions); outcomes are slot indices, or a tuple / string describing anything else that happened."""
    def scen():
        st = make()
        prev = None
        for i in range(max_updates):
            st.update({"t": i})
            cur = [d["t"] for d in st.get_data()[0]]
            if i >= k and prev is not None and cur != prev:
                ch = [s_ for s_ in range(len(cur)) if s_ >= len(prev) or prev[s_] != cur[s_]]
                return ch[0] if len(ch) == 1 and len(cur) == k and cur[ch[0]] == i else ("odd", tuple(ch), len(cur))
            prev = cur
        return "no-replacement"
    law, runs, _ = exact_law(scen, fixed_float=fixed_float, max_runs=max_runs)
    return law, runs
