"""Independent references for incremental PFI / SAGE evaluated on the event log of each call
(DESIGN C02 / C03).  Uses only the pristine model / loss twins and the logged model inputs."""
from .refs import RefStat, RefMulti, mean_out, mean, close, dict_close


class Mismatch(Exception):
    def __init__(self, what, detail):
        super().__init__(f"{what}: {detail}")
        self.what = what


def groups_from_log(log, x, n_used, d):
    """Return (first_model_input, [(subset or None, inputs, results or None)])."""
    minputs = [e[1] for e in log if e[0] == "model"]
    rets = [e for e in log if e[0] == "impute.ret"]
    if not minputs:
        raise Mismatch("no-model-call", "no model evaluation logged")
    if rets:
        return minputs[0], [(list(e[1]), e[2], e[3]) for e in rets]
    rest = minputs[1:]
    if len(rest) != d * n_used:
        raise Mismatch("evaluation-count", f"{len(rest)} imputed evaluations, expected {d}*{n_used}")
    return minputs[0], [(None, rest[i * n_used:(i + 1) * n_used], None) for i in range(d)]


def decoded_subset(names, x, xi):
    return frozenset(n for n in names if not (xi[n] == x[n]))


def group_outputs(model, subset, inputs, results, x, names, unique=True):
    """Pristine outputs of one imputation group; verifies the logged results against the twin.
    unique=False: stream values repeat (real data), so an imputed value may equal the instance's own value and the decoded
    difference set is only required to lie inside the requested subset."""
    if not inputs:
        raise Mismatch("empty-group", "imputer evaluated the model 0 times")
    subs = {decoded_subset(names, x, xi) for xi in inputs}
    if subset is not None:
        want = frozenset(subset)
        for s in subs:
            if (s != want) if unique else not (s <= want):
                raise Mismatch("imputed-set", f"model input differs from x on {sorted(map(repr, s))}, "
                                              f"imputer was asked for {sorted(map(repr, want))}")
    elif len(subs) != 1:
        raise Mismatch("imputed-set", f"inner samples of one step impute different sets {subs}")
    s = next(iter(subs)) if subset is None else frozenset(subset)
    for xi in inputs:
        for k in x:
            if k not in s and not (k in xi and xi[k] == x[k]):
                raise Mismatch("outside-subset-changed", f"model input differs from x on {k!r}, which was not to be imputed")
        if set(xi.keys()) != set(x.keys()):
            raise Mismatch("input-keys", f"model input has keys {sorted(map(repr, xi))}, the instance {sorted(map(repr, x))}")
    # the INTENDED evaluation: x with exactly the imputed features replaced (x's own key order); a positional model
    # therefore exposes implementations that permute or re-assemble the input
    outs = [model.one({k: (xi[k] if k in s else x[k]) for k in x}) for xi in inputs]
    if results is not None:
        if len(results) == len(outs):
            pass
        elif len(inputs) == 1:
            outs = outs * len(results)
        else:
            raise Mismatch("result-count", f"{len(results)} results for {len(inputs)} evaluations")
        for r, o in zip(results, outs):
            if not (r == o):
                raise Mismatch("result-not-model-output", f"{r!r} != {o!r}")
    return s, outs


class SageRef:
    def __init__(self, names, dyn, alpha, lbib, model, loss, fast=False):
        self.names, self.dyn, self.alpha, self.lbib = list(names), dyn, alpha, lbib
        self.model, self.loss = model, loss
        self.imp = {n: RefStat(dyn, alpha, fast) for n in names}
        self.var = {n: RefStat(dyn, alpha, fast) for n in names}
        self.marg, self.mod = RefStat(dyn, alpha, fast), RefStat(dyn, alpha, fast)
        self.pred = RefMulti(dyn, alpha, fast)
        self.explained = 0
        self.unique = True
        self.last_order = None
        self.last_contrib = None

    def call(self, x, y, log, n_used):
        names = self.names
        first, groups = groups_from_log(log, x, n_used, len(names))
        if not (first == x):
            raise Mismatch("first-input", "first model evaluation is not on the unperturbed instance")
        if len(groups) != len(names):
            raise Mismatch("chain-length", f"{len(groups)} imputation steps for {len(names)} features")
        pred = self.model.one(x)
        self.pred.add(pred)
        mp = self.pred.normalized()
        prev = self.loss.one(y, mp)
        self.marg.add(prev)
        self.mod.add(self.loss.one(y, pred))
        remaining = frozenset(names)
        contrib, order = {}, []
        for subset, inputs, results in groups:
            s, outs = group_outputs(self.model, subset, inputs, results, x, names, self.unique)
            diff = remaining - s
            if len(diff) != 1 or not (s < remaining):
                raise Mismatch("chain", f"imputation sets are not a chain: {sorted(map(repr, remaining))} -> {sorted(map(repr, s))}")
            f = next(iter(diff))
            remaining = s
            cur = self.loss.one(y, mean_out(outs))
            contrib[f] = prev - cur
            prev = cur
            order.append(f)
        if remaining:
            raise Mismatch("chain", "last imputation is not on the empty set")
        for n in names:
            self.imp[n].add(contrib[n])
        for n in names:
            dv = contrib[n] - self.imp[n].get()
            self.var[n].add(dv * dv)
        self.explained += 1
        self.last_order, self.last_contrib = tuple(order), contrib
        off = 1 if self.lbib else 0
        return {"importance": {n: self.imp[n].get() for n in names},
                "variances": {n: self.var[n].get() for n in names},
                "marginal_loss": self.marg.get() + off, "model_loss": self.mod.get() + off,
                "marginal_prediction": mp}


class PfiRef:
    def __init__(self, names, dyn, alpha, model, loss, fast=False):
        self.names, self.dyn, self.alpha = list(names), dyn, alpha
        self.model, self.loss = model, loss
        self.imp = {n: RefStat(dyn, alpha, fast) for n in names}
        self.var = {n: RefStat(dyn, alpha, fast) for n in names}
        self.unique = True
        self.last_contrib = None

    def call(self, x, y, log, n_used):
        names = self.names
        first, groups = groups_from_log(log, x, n_used, len(names))
        if not (first == x):
            raise Mismatch("first-input", "first model evaluation is not on the unperturbed instance")
        ol = self.loss.one(y, self.model.one(x))
        byf = {}
        for subset, inputs, results in groups:
            s, outs = group_outputs(self.model, subset, inputs, results, x, names, self.unique)
            if len(s) != 1:
                raise Mismatch("pfi-subset", f"PFI evaluation replaced {sorted(map(repr, s))}, expected exactly one feature")
            f = next(iter(s))
            if f in byf:
                raise Mismatch("pfi-subset", f"feature {f!r} imputed in two groups")
            byf[f] = outs
        contrib = {}
        for n in names:
            if n not in byf:
                raise Mismatch("pfi-subset", f"feature {n!r} never imputed")
            if len(byf[n]) != n_used:
                raise Mismatch("pfi-n", f"{len(byf[n])} inner predictions for {n!r}, expected {n_used}")
            contrib[n] = mean([self.loss.one(y, o) for o in byf[n]]) - ol
            self.imp[n].add(contrib[n])
        for n in names:
            dv = contrib[n] - self.imp[n].get()
            self.var[n].add(dv * dv)
        self.last_contrib = contrib
        return {"importance": {n: self.imp[n].get() for n in names},
                "variances": {n: self.var[n].get() for n in names}}


def compare(obs, exp, exact, scale, pscale=1.0):
    """Yield (observable, observed, expected) for every mismatch."""
    tol = 0 if exact else 1e-9 * scale
    for key in exp:
        o, e = obs[key], exp[key]
        if key == "variances":
            t = 0 if exact else 1e-9 * scale * scale
        elif key == "marginal_prediction":
            t = 0 if exact else 1e-9 * pscale
        else:
            t = tol
        if isinstance(e, dict):
            if not dict_close(o, e, t):
                yield key, o, e
        elif not close(o, e, t):
            yield key, o, e
