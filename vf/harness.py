"""Scenario builder for explainer workloads: configuration product, recording proxies around the
real library objects, step-wise execution (DESIGN 2.2 / 3 'cfg product')."""
import copy
import random

import numpy as np

from .probes import Clock, Models, Losses, UniqueStream, make_names, InjectedFault  # noqa
from .qnum import Q


def storage_proxy(cls, clock, count_get=False):
    """Subclass of a real storage that records update (and optionally get_data) at the boundary.
    The clock is an instance attribute (not a closure) so that deep copies tick their own copy."""
    class Proxy(cls):
        def __init__(self, *a, **k):
            super().__init__(*a, **k)
            self._vf_clock = clock
            self._vf_count_get = count_get

        def update(self, x, y=None):
            self._vf_clock.tick("storage.update")
            self._vf_clock.log.append(("storage.update", x, y))
            return super().update(x, y)

        def get_data(self):
            if self._vf_count_get:
                self._vf_clock.tick("storage.get_data")
            return super().get_data()
    Proxy.__name__ = cls.__name__ + "Proxy"
    Proxy.__qualname__ = Proxy.__name__
    return Proxy


class ImputerProxy:
    """Wraps a real imputer; records every impute call with deep snapshots of its arguments."""

    def __init__(self, inner, clock):
        self.inner, self.clock = inner, clock

    def impute(self, feature_subset, x_i, n_samples=1):
        self.clock.tick("imputer")
        sub = list(feature_subset)
        start = len(self.clock.log)
        self.clock.log.append(("impute.call", sub, dict(x_i), n_samples))
        res = self.inner.impute(feature_subset=feature_subset, x_i=x_i, n_samples=n_samples)
        inputs = [e[1] for e in self.clock.log[start:] if e[0] == "model"]
        self.clock.log.append(("impute.ret", sub, inputs, [dict(r) if isinstance(r, dict) else r for r in res]))   # (value snapshots)
        return res


class RoundRobinImputer:
    """A contract-abiding custom imputer (C06 clauses): replaces exactly the subset with the values of one stored
    observation; empty subset -> unperturbed prediction.  Stateless: the row is a deterministic function of the
    instance, the subset and the sample index (no hidden counter that a failed call could advance)."""

    def __init__(self, model, storage):
        self.model, self.storage = model, storage

    def impute(self, feature_subset, x_i, n_samples=1):
        from .probes import h, canon
        out = []
        sub = sorted(map(repr, feature_subset))
        for i in range(n_samples):
            rows = list(self.storage.get_data()[0])
            row = rows[h("rr", canon(x_i), tuple(sub), i) % len(rows)]
            out.append(self.model({**x_i, **{f: row[f] for f in feature_subset}}))
        return out


def rnd_strategy(seed):
    return "joint" if seed % 2 else "product"


def make_storage(spec, clock, count_get=False):
    from ixai.storage import (UniformReservoirStorage, GeometricReservoirStorage, IntervalStorage,
                              SequenceStorage, BatchStorage)
    kind = spec[0]
    tg = spec[-1] if isinstance(spec[-1], bool) else False
    if kind == "uniform":
        return storage_proxy(UniformReservoirStorage, clock, count_get)(size=spec[1], store_targets=tg)
    if kind == "geometric":
        return storage_proxy(GeometricReservoirStorage, clock, count_get)(
            size=spec[1], constant_probability=spec[2], store_targets=tg)
    if kind == "interval":
        return storage_proxy(IntervalStorage, clock, count_get)(size=spec[1], store_targets=tg)
    if kind == "sequence":
        return storage_proxy(SequenceStorage, clock, count_get)(store_targets=tg)
    if kind == "batch":
        return storage_proxy(BatchStorage, clock, count_get)(store_targets=tg)
    if kind == "tree":      # TreeStorage over numeric features (spec: ("tree", names, grace period, reservoir length, seed))
        from ixai.storage import TreeStorage
        return storage_proxy(TreeStorage, clock, count_get)(cat_feature_names=[], num_feature_names=list(spec[1]), max_depth=3,
                                                            leaf_reservoir_length=spec[3], grace_period=spec[2], seed=spec[4])
    raise ValueError(spec)


def gen_storage_spec(rnd):
    kind = rnd.choice(["uniform", "uniform", "geometric", "geometric", "interval", "sequence", "batch", "library-default"])
    if kind == "library-default":
        return ("library-default",)
    size = rnd.choice([1, 2, 3, 5, 100])
    tg = rnd.random() < 0.5
    if kind == "uniform":
        return ("uniform", size, tg)
    if kind == "geometric":
        return ("geometric", size, rnd.choice([None, 0.5, 1.0, 0.9]), tg)
    if kind == "interval":
        return ("interval", size, tg)
    if kind == "sequence":
        return ("sequence", tg)
    return ("batch", tg)


def gen_cfg(rnd, explainer, exact, allow_discontinuous=False):
    dyn = rnd.random() < 0.6
    if exact:
        alpha = rnd.choice([Q(1, 1000), Q(1, 3), Q(1, 2), 1, Q(rnd.randrange(1, 1000), 1000), 0.25, 0.5, 1.0, Q(1, 4096), Q(1, 10 ** 5), 2.0 ** -12])  # floats: 1-alpha exact
    else:
        alpha = rnd.choice([0.001, 1 / 3, 0.5, 1.0, rnd.uniform(1e-3, 1.0), 1e-4, 2.0 ** -12, rnd.uniform(1e-6, 1e-3)])      # (rates below the default 0.001 are legal)
    d = rnd.choice([1, 2, 2, 3, 3, 4, 5, 6])
    cfg = {
        "explainer": explainer, "exact": exact, "dyn": dyn, "alpha": alpha,
        "d": d, "n_inner": rnd.choice([1, 1, 2, 3, 5]) if exact else rnd.choice([1, 1, 2, 3, 4]),
        "names": rnd.choice(["str", "str", "str", "int", "int", "float", "float", "mixed", "spelled", "odd", "collide"]),
        "storage": gen_storage_spec(rnd),
        "imputer": rnd.choice(["joint", "joint", "product", "default", "custom", "library-default", "background"]),
        # 'background': a MarginalImputer bound to a data set the USER maintains, not to the explainer's own storage
        "frozen_first": rnd.choice([0, 0, 0, 1, 2, 6]),   # first calls made with update_storage=False (imputers that do not need the storage)
        "model": rnd.choice(["scalar", "scalar", "multi", "grow", "ignore", "constant", "linear", "positional", "positional", "antisym", "coarse", "top2", "abstain"]),
        "extras": rnd.choice([0, 0, 1, 2]),          # features present in the data but not explained (the model reads them)
        "warm_start": rnd.choice([0, 0, 0, 2]),      # observations put into the storage via update_storage() before the first call
        "loss": rnd.choice(["hash", "hash", "hash", "sq", "zero"]) if exact else rnd.choice(["sq", "abs", "sq", "zero"]),
        "lbib": rnd.random() < 0.4,
        "steps": rnd.choice([6, 10, 16, 25]),
        "vary_calls": rnd.random() < 0.5,
        "pass_alpha": True,
        "shuffle_keys": rnd.random() < 0.3,          # observations list their keys in varying order (key-based models only)
        "keyword_call": rnd.random() < 0.3,          # explain_one(x_i=..., y_i=...) instead of positional arguments
        "names_as_tuple": False,
        "out_type": "plain" if exact else rnd.choice(["plain", "plain", "np64", "int", "np0d", "u8-loss", "arr-loss", "npbool", "pybool"]),   # NumPy scalars as model outputs / loss values
        "label_keys": rnd.choice(["int", "int", "str"]),                                     # keys of multi-label outputs
        "x_type": rnd.choice(["dict", "dict", "OrderedDict", "subclass", "Counter"]),                   # observations as dict subclasses
        "memo_model": rnd.random() < 0.25,
        "river_wrap": rnd.random() < 0.15,            # the prediction function goes through ONE RiverWrapper object shared by explainer and imputer
        "reuse_out": rnd.random() < 0.2,               # the model overwrites ONE output dict (only with one inner sample per imputation)
        "checkpoint": rnd.random() < 0.15,            # mid-stream the caller deep-copies everything (explainer, storage, imputer) and continues on the copy
        "positional_call": rnd.random() < 0.3,       # optional arguments passed POSITIONALLY in the documented order (x_i, y_i, n_inner_samples, update_storage)
        "hoisted": rnd.random() < 0.3,               # the caller keeps `f = explainer.explain_one` taken BEFORE the first call and uses it throughout
        "manual_updates": rnd.random() < 0.2,        # the user also feeds the storage through update_storage() between explanations                                                   # model hands out cached dict objects
    }
    # a 0-1 loss returning Python bools is discontinuous: usable where no float reference is compared (C01's self-consistency
    # identity) and in exact dynamic mode (bool/int arithmetic stays exact under exponential smoothing with a rational alpha)
    if rnd.random() < 0.12 and ((not exact and allow_discontinuous) or (exact and dyn and not isinstance(alpha, float))):
        cfg["loss"] = "zero-one"
    if rnd.random() < 0.04 and not exact:            # long stream: the default / size-100 storages fill up and start replacing
        cfg["steps"] = rnd.choice([130, 260])
        cfg["storage"] = rnd.choice([("uniform", 100, False), ("geometric", 100, None, False), ("interval", 100, True)])
        cfg["d"] = min(cfg["d"], 3)
        cfg["n_inner"] = min(cfg["n_inner"], 2)
        cfg["model"] = rnd.choice(["phase", "phase", cfg["model"]])      # a model that only becomes informative after ~40 observations
        cfg["extras"] = 0
    if not exact and rnd.random() < 0.15:
        # the explainer is built WITHOUT a smoothing rate: the documented default 0.001 applies (references use 0.001)
        cfg["pass_alpha"], cfg["alpha"] = False, 0.001
    if not exact and rnd.random() < 0.05:       # the tree combination: TreeStorage + TreeImputer under an incremental explainer
        cfg.update(storage=("tree", rnd.choice([5, 10, 30]), rnd.choice([1, 3, 10])), imputer=rnd.choice(["tree-storage", "tree-model"]),
                   warm_start=0, manual_updates=False, frozen_first=0, steps=max(cfg["steps"], 25), x_type="dict", shuffle_keys=False)
        if cfg["model"] in ("phase",):
            cfg["model"] = "scalar"
        cfg["d"] = max(2, min(cfg["d"], 4))
    cfg["str_values"] = rnd.random() < 0.2 and cfg["storage"][0] != "tree" and cfg["model"] not in ("linear", "phase")      # categorical features with string values
    cfg["ykind"] = rnd.choice(["str", "bool"]) if rnd.random() < 0.2 and cfg["loss"] in ("hash", "zero", "zero-one") else "int"
    r = rnd.random()
    if r < 0.03:          # wide explainers (many features), short streams
        cfg.update(d=rnd.choice([9, 12, 17, 33]), n_inner=1, steps=min(cfg["steps"], 8), extras=0)
    elif r < 0.06:        # many inner samples (chunking / batching thresholds), few features
        cfg.update(n_inner=rnd.choice([8, 17, 64, 65, 129]), d=min(cfg["d"], 2), steps=min(cfg["steps"], 8))
    if cfg["model"] == "positional":
        cfg["shuffle_keys"] = False
    if cfg["model"] == "antisym" and cfg["out_type"] in ("npbool", "pybool"):
        cfg["out_type"] = "plain"       # (the harness model negates its value: not defined for booleans)
    if cfg["out_type"] == "u8-loss" and explainer != "pfi":
        cfg["out_type"] = "plain"       # (SAGE subtracts losses from each other: unsigned modular arithmetic is not a real-valued loss)
    # fields added later draw from their own generator (keyed on the configuration) so that earlier seeds keep their configurations
    import zlib
    aux = random.Random(zlib.crc32(repr((cfg["d"], cfg["steps"], cfg["n_inner"], str(cfg["alpha"]), cfg["model"], cfg["names"])).encode()))
    if aux.random() < 0.15 and cfg["n_inner"] < 8 and cfg["steps"] >= 6 and not (cfg.get("reuse_out")):
        # the user re-assigns the public attribute `n_inner_samples` between two observations: later calls use the new value
        cfg["reassign_inner"] = (aux.randrange(2, cfg["steps"] - 1), aux.choice([1, 2, 3, 4]))
    if aux.random() < 0.3:
        cfg["label_order"] = "by-value"      # multi-label outputs list the most probable label first: the key ORDER differs between outputs
    if exact and aux.random() < 0.35 and cfg["out_type"] == "plain" and isinstance(cfg["alpha"], Q) and cfg["loss"] in ("hash", "zero", "zero-one") \
            and cfg["model"] not in ("linear", "positional"):
        # (with a rational smoothing rate and a loss that returns the harness' rationals nothing in the library turns these into floats)
        cfg["out_type"] = "fraction"         # model outputs are plain fractions.Fraction objects (not the harness' absorbing rational)
    return cfg


def make_phase(cfg, rnd, dyn):
    """A model that is constant for the first ~40 observations and informative afterwards (an online learner before it is
    fitted), on a stream long enough to fill the size-100 storages: all contributions are exactly 0 for dozens of calls."""
    cfg.update(steps=rnd.choice([130, 260]), storage=rnd.choice([("uniform", 100, False), ("geometric", 100, None, False), ("interval", 100, True)]),
               d=min(cfg["d"], 3), n_inner=min(cfg["n_inner"], 2), model="phase", extras=0, dyn=dyn, str_values=False)
    if cfg["imputer"] == "library-default":
        cfg["imputer"] = "joint"
    return cfg


def make_long(cfg, rnd, steps):
    """Turn a configuration into a stream of thousands of calls on ONE explainer (thresholds in call counters)."""
    cfg.update(steps=steps, d=min(cfg["d"], 2), n_inner=1, extras=0, vary_calls=False, manual_updates=False,
               storage=rnd.choice([("uniform", 5, False), ("geometric", 5, None, False), ("interval", 3, True)]))
    if cfg["exact"] and cfg["loss"] not in ("hash", "zero", "zero-one"):
        # exact squared / absolute losses of a NORMALISED marginal prediction have a fresh denominator at every call; the smoothed
        # sums then grow by thousands of bits per call (a 2100-call stream ran for more than an hour: the quick tier of one commit hit
        # its watchdog at VERIF_SEED=6).  Long exact streams use the hash loss, whose values have the fixed denominator 13.
        cfg["loss"] = "hash"
    if cfg["exact"] and cfg["dyn"]:
        # exact smoothing multiplies denominators at every call: a dyadic alpha keeps the rationals at ~2 bits per call
        # (with k/1000 the numbers reach thousands of digits after 1400 calls - first long thorough run: a false alarm from the
        # interpreter's int->str limit inside the harness' own hash loss, and shards beyond the watchdog)
        cfg["alpha"] = rnd.choice([Q(1, 2), Q(1, 4), Q(3, 4)])
    if cfg["imputer"] == "library-default":
        cfg["imputer"] = "joint"
    return cfg


class Scenario:
    def __init__(self, cfg, seed, count_get=False, record_imputer=True, strict_loss=False):
        from ixai.explainer import IncrementalSage, IncrementalPFI
        from ixai.imputer import MarginalImputer, DefaultImputer
        self.cfg, self.seed = cfg, seed
        random.seed(seed)
        np.random.seed(seed % (2 ** 32))
        self.rnd = random.Random(seed ^ 0x5EED)
        self.clock = Clock()
        self.names = make_names(cfg["names"], cfg["d"])
        self.names0 = list(self.names)
        self.model = Models(cfg["model"], self.names, exact=cfg["exact"], clock=self.clock,
                            out_type=cfg.get("out_type", "plain"), label_keys=cfg.get("label_keys", "int"))
        self.model.label_order = cfg.get("label_order", "fixed")
        if cfg.get("memo_model"):
            self.model.memo = {}
        if cfg.get("reuse_out") and cfg["n_inner"] == 1 and not cfg.get("vary_calls") and cfg["imputer"] != "custom":
            self.model.reuse_out = True
        model_fn = self.model
        if cfg.get("river_wrap"):
            # the user wraps the (dict-returning) prediction function in the library's RiverWrapper, ONE wrapper object shared by the
            # explainer and the imputer: dict outputs pass through it unchanged
            from ixai.utils.wrappers import RiverWrapper
            model_fn = RiverWrapper(self.model)
        self.loss = Losses(cfg["loss"], exact=cfg["exact"], clock=self.clock, out_type=cfg.get("out_type", "plain"))
        loss_fn = self.loss
        if strict_loss:
            inner = self.loss

            def loss_fn(y_true, y_pred):   # the documented positional signature, nothing more
                return inner(y_true, y_pred)
        if cfg["storage"][0] == "library-default":      # storage=None: the explainer builds its documented default reservoir
            self.storage = None
            if cfg["imputer"] not in ("default", "library-default"):
                cfg["imputer"] = "library-default"
            cfg["warm_start"] = 0
        elif cfg["storage"][0] == "tree":
            # explainer + TreeStorage + TreeImputer (float mode): every explained and every extra feature is numeric for the trees
            allf = list(self.names) + [f"extra{j}" for j in range(cfg.get("extras", 0))]
            self.storage = make_storage(("tree", allf, cfg["storage"][1], cfg["storage"][2], seed % 1000), self.clock, count_get)
        else:
            self.storage = make_storage(cfg["storage"], self.clock, count_get)
        if str(cfg["imputer"]).startswith("tree") and cfg["storage"][0] != "tree":
            cfg["imputer"] = "joint"          # (a check replaced the storage of a tree configuration: the tree imputer goes with it)
        if cfg["storage"][0] == "tree" and not str(cfg["imputer"]).startswith("tree"):
            cfg["imputer"] = "tree-storage"
        imp = cfg["imputer"]
        # odd-indexed features get falsy defaults now and then (0 / False are legal default values)
        self.defaults = {n: (-(j + 1) if j % 2 == 0 or seed % 3 else [0, False, 0.0][j % 3]) for j, n in enumerate(self.names)}
        if imp in ("joint", "product"):
            real = MarginalImputer(model_fn, imp, self.storage)
        elif imp == "default":
            real = DefaultImputer(model_fn, dict(self.defaults))
        elif imp in ("tree-storage", "tree-model"):
            from ixai.imputer import TreeImputer
            real = TreeImputer(model_fn, self.storage, use_storage=(imp == "tree-storage"), direct_predict_numeric=bool(seed % 2))
        elif imp == "custom":
            real = RoundRobinImputer(model_fn, self.storage)
        elif imp == "background":
            from ixai.storage import BatchStorage
            self.background = BatchStorage(store_targets=False)
            allf = list(self.names) + [f"extra{j}" for j in range(cfg.get("extras", 0))]
            for r in range(4):        # values disjoint from the stream's (the rows are still identified by their values)
                self.background.update({n: -(5000000 + 1000 * r + j) for j, n in enumerate(allf)})      # (negative: stream values grow without bound)
            real = MarginalImputer(model_fn, rnd_strategy(seed), self.background)
        else:
            real = None
        self.real_imputer = real
        if real is None:
            self.imputer = None
        else:
            self.imputer = ImputerProxy(real, self.clock) if record_imputer else real
        kw = dict(storage=self.storage, imputer=self.imputer,
                  n_inner_samples=(np.int64(cfg["n_inner"]) if seed % 5 == 0 else cfg["n_inner"]),
                  dynamic_setting=cfg["dyn"])
        if cfg.get("pass_alpha", True):
            kw["smoothing_alpha"] = cfg["alpha"]
        if cfg["explainer"] == "sage":
            self.e = IncrementalSage(model_fn, loss_fn, self.names, loss_bigger_is_better=cfg["lbib"], **kw)
        else:
            self.e = IncrementalPFI(model_fn, loss_fn, self.names, **kw)
        self.extras = [f"extra{j}" for j in range(cfg.get("extras", 0))]
        self.stream = UniqueStream(self.names, seed=seed, exact=cfg["exact"], extras=self.extras,
                                   shuffle_keys=cfg.get("shuffle_keys", False), str_values=cfg.get("str_values", False),
                                   ykind=cfg.get("ykind", "int") if cfg["loss"] in ("hash", "zero", "zero-one") else "int")
        self.t = 0
        self.n_inner_now = cfg["n_inner"]      # what the explainer's public attribute says (the user may re-assign it)
        self.max_loss = 1.0
        self._explain = self.e.explain_one if cfg.get("hoisted") else None
        for _ in range(cfg.get("warm_start", 0)):
            xw, yw = self.stream.next()
            self.e.update_storage(xw, yw)
        self.clock.reset()

    def next_obs(self):
        x, y = self.stream.next()
        xt = self.cfg.get("x_type", "dict")
        if xt == "OrderedDict":
            import collections
            x = collections.OrderedDict(x)
        elif xt == "subclass":
            x = _Obs(x)
        elif xt == "Counter" and all(isinstance(v, (int, float)) for v in x.values()):
            import collections
            x = collections.Counter(x)        # a dict subclass whose update() ADDS instead of replacing
        return x, y

    def call_kwargs(self):
        """Per-call variations: n_inner override, update_storage=False (on the first calls only with imputers that do not
        read the explainer's own storage)."""
        kw = {}
        if self.t < self.cfg.get("frozen_first", 0) and self.cfg["imputer"] in ("default", "background"):
            return {"update_storage": False}
        if self.cfg.get("vary_calls") and self.t > 0:
            r = self.rnd.random()
            if r < 0.2:
                n = self.rnd.choice([1, 2, 3] if self.cfg["exact"] else [1, 2, 4])
                kw["n_inner_samples"] = self.rnd.choice([int, int, np.int64, np.int32])(n)    # NumPy integers are integers too
            r = self.rnd.random()
            if r < 0.2:
                kw["update_storage"] = False
        return kw

    def step(self, x=None, y=None, **kw):
        if x is None:
            x, y = self.next_obs()
        if self.cfg.get("manual_updates") and self.storage is not None and self.rnd.random() < 0.25:
            xm, ym = self.stream.next()
            if self.rnd.random() < 0.5:
                self.e.update_storage(xm, ym)
            else:
                self.e.update_storage(x_i=xm, y_i=ym)
        ri = self.cfg.get("reassign_inner")
        if ri and self.t == ri[0]:
            self.e.n_inner_samples = ri[1]
            self.n_inner_now = ri[1]
        self.clock.reset()
        fn = self._explain if getattr(self, "_explain", None) is not None else self.e.explain_one
        if self.cfg.get("keyword_call"):
            ret = fn(x_i=x, y_i=y, **kw)
        elif self.cfg.get("positional_call") and kw and set(kw) <= {"n_inner_samples", "update_storage"}:
            if "update_storage" in kw:
                ret = fn(x, y, kw.get("n_inner_samples"), kw["update_storage"])
            else:
                ret = fn(x, y, kw["n_inner_samples"])
        else:
            ret = fn(x, y, **kw)
        self.t += 1
        if isinstance(ret, dict) and self.t % 3 == 0:
            # the caller edits the dict it was handed (its own copy of the results): must not reach the explainer's state
            keep = dict(ret)
            for k_ in list(ret):
                ret[k_] = "edited-by-caller"
            ret["added-by-caller"] = -1
            ret = keep
            for view in (self.e.importance_values, self.e.variances):
                if isinstance(view, dict):
                    view.clear()
        return x, y, ret, list(self.clock.log)

    def snapshot(self):
        e = self.e
        snap = {"importance": dict(e.importance_values), "variances": dict(e.variances)}
        if hasattr(e, "marginal_loss"):
            snap.update(marginal_loss=e.marginal_loss, model_loss=e.model_loss,
                        marginal_prediction=dict(e.marginal_prediction))
        return copy.deepcopy(snap)      # values may be mutable (NumPy arrays): a snapshot must not alias live state


class _Obs(dict):
    """A user's dict subclass (observations need not be plain dicts)."""


def ref_alpha(cfg):
    """alpha as the references use it: exact rational in exact mode (float alphas there are dyadic)."""
    return Q(cfg["alpha"]) if cfg["exact"] else cfg["alpha"]
