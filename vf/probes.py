"""Recording proxies, unique-id streams, deterministic hash-table models and losses (DESIGN 2.2, 2.6)."""
import hashlib
import random
import sys

from .qnum import Q


if hasattr(sys, "set_int_max_str_digits"):
    sys.set_int_max_str_digits(0)      # the hash functions print exact rationals of any size


def h(*a):
    return int(hashlib.sha256(repr(a).encode()).hexdigest()[:12], 16)


def canon(x):
    """Canonical, order-independent description of a dict with arbitrary keys / numeric values."""
    return tuple(sorted((repr(k), _cv(v)) for k, v in x.items()))


def _cv(v):
    if isinstance(v, Q):
        return ("q", v.f.numerator, v.f.denominator)
    try:
        import numpy as np
        if isinstance(v, np.generic) or (isinstance(v, np.ndarray) and v.ndim == 0):
            v = v.item()          # the harness' hash functions depend on numeric VALUES, not on their container type
    except ImportError:
        pass
    if isinstance(v, bool):
        return ("q", int(v), 1)       # True == 1 == 1.0: the hash functions are functions of the numeric value (a mean of n copies of True is 1.0)
    if isinstance(v, int):
        return ("q", v, 1)
    if isinstance(v, float):
        if v == int(v) and abs(v) < 2 ** 53:
            return ("q", int(v), 1)
        return ("f", v.hex())
    return ("r", repr(v))


class InjectedFault(Exception):
    pass


# the callbacks of a real user raise all sorts of exception types; the explainers must not swallow any of them
FAULT_TYPES = [InjectedFault] + [type("Injected" + b.__name__, (InjectedFault, b), {}) for b in
                                 (ValueError, KeyError, IndexError, RuntimeError, TypeError, ZeroDivisionError, AttributeError,
                                  ArithmeticError, LookupError, OSError, StopIteration, AssertionError, NotImplementedError,
                                  OverflowError, FloatingPointError, UnicodeError, EOFError, NameError, TimeoutError)]


# ... and so do KeyboardInterrupt (Ctrl-C during a long explanation in a notebook), SystemExit and task cancellation, which derive
# from BaseException only.  Used where the harness catches them explicitly (Clock.interrupts = True).
import asyncio as _asyncio
INTERRUPT_TYPES = [type("Injected" + b.__name__, (b,), {"injected": True}) for b in (KeyboardInterrupt, _asyncio.CancelledError, SystemExit)]


class Clock:
    """Single logical clock + event log + failpoint shared by all proxies of one scenario."""
    interrupts = False

    def __init__(self):
        self.log = []
        self.callbacks = 0
        self.fail_at = None
        self.fail_at_next = None      # one-shot failpoint armed for the next call only (survives reset once)
        self.last_fault = None
        self.fault_salt = 0

    def tick(self, site):
        self.callbacks += 1
        if self.fail_at is not None and self.callbacks == self.fail_at:
            self.log.append(("fault", site))
            types = FAULT_TYPES + INTERRUPT_TYPES if self.interrupts else FAULT_TYPES
            self.last_fault = types[(self.callbacks + self.fault_salt) % len(types)](f"{site} #{self.callbacks}")
            raise self.last_fault

    def reset(self):
        self.log = []
        self.callbacks = 0
        self.fail_at, self.fail_at_next = self.fail_at_next, None

    def of(self, kind):
        return [e for e in self.log if e[0] == kind]


def make_names(kind, d):
    base = _make_names(kind, min(d, 8))
    if d > 8:        # wide explainers: the pools continue with generated names of the same kind
        ext = {"str": lambda j: f"g{(j * 7) % 101}_{j}", "int": lambda j: j, "float": lambda j: j + 0.5,
               "mixed": lambda j: [f"m{j}", 100 + j, 100.5 + j][j % 3], "spelled": lambda j: [str(200 + j), 300 + j][j % 2],
               "odd": lambda j: [f" x{j}", -100 - j, float(10 ** (20 + j))][j % 3], "collide": lambda j: 8 * j}[kind]
        base = list(base) + [ext(j) for j in range(8, d)]
    return base


def _make_names(kind, d):
    if kind == "str":
        return ["f3", "f0", "f7", "f1", "f5", "f2", "f6", "f4"][:d]      # deliberately not in sorted order
    if kind == "int":
        return list(range(d))
    if kind == "float":
        return [j + 0.5 for j in range(d)]
    if kind == "mixed":
        pool = ["a", 1, 2.5, "b", 4, 5.5, "c", 7]
        return pool[:d]
    if kind == "spelled":    # str names that SPELL a numeric name next to it: distinct dict keys ('1' != 1), equal only after str()
        return ["1", 1, 2.5, "2.5", 0, "0", -3, "-3"][:d]
    if kind == "collide":    # small ints whose hashes collide in small sets / dicts (multiples of 8): iteration order differs from insertion order
        return [8, 0, 16, 24, 32, 40, 48, 56][:d]
    if kind == "odd":        # legal but unusual: empty / blank / non-ASCII strings, negative and huge numbers
        return ["", -1, " ", 1e300, "\u00dcn\u00ef", 10 ** 20, "f 1", -0.5][:d]
    raise ValueError(kind)


class Models:
    """Deterministic pure model functions.  `one(x)` is the pristine twin used by references."""

    def __init__(self, kind, names, exact=True, clock=None, accept_batch=True, out_type="plain", label_keys="int"):
        self.kind, self.names, self.exact, self.clock = kind, list(names), exact, clock
        self.accept_batch = accept_batch
        self.out_type, self.label_keys = out_type, label_keys
        self.memo = None            # set to {} for a memoising model: the SAME dict object is handed out for equal inputs
        self.label_order = "fixed"  # "by-value": label dicts list the most probable label first (key ORDER varies from call to call)

    def num(self, n, den=7):
        if self.exact:
            if self.out_type == "fraction":           # the standard library's exact rationals (Fraction + float is a float: an
                import fractions                      # accidental float start value / offset in the library destroys exactness)
                return fractions.Fraction(n, den)
            return Q(n, den)
        if self.out_type == "np64":                   # NumPy scalars are legal numeric outputs
            import numpy as np
            return np.float64(n / 8.0)
        if self.out_type == "np0d":                   # ... and so are 0-dimensional arrays
            import numpy as np
            return np.array(n / 8.0)
        if self.out_type == "npbool":                 # boolean-valued outputs ({'output': x['a'] + x['b'] > 1} on NumPy inputs)
            import numpy as np
            return np.bool_(n % 2)
        if self.out_type == "pybool":
            return n % 3 == 0
        if self.out_type == "int":                    # integer-valued outputs: integer arithmetic paths (floor / truncation traps)
            return int(n)
        return n / 8.0   # /8: float means of <=8 stay exact-ish

    def lab(self, l):
        return l if self.label_keys == "int" else f"class_{l}"

    def one(self, x):
        out = self._one(x)
        if self.label_order == "by-value" and len(out) > 1:
            out = dict(sorted(out.items(), key=lambda kv: (-float(kv[1]), repr(kv[0]))))
        return out

    def _one(self, x):
        k = self.kind
        c = canon(x)
        if k == "scalar":
            return {"output": self.num(h("m", c) % 1000)}
        if k == "abstain":    # a classifier that now and then returns NO label at all ({}: e.g. predict_proba_one right after a reset)
            if h("abst", c) % 4 == 0:
                return {}
            return {self.lab(l): self.num(h("m", l, c) % 1000 + 1) for l in range(1 + h("k", c) % 3)}
        if k == "top2":       # top-2 classifier: every output carries TWO of four labels - label sets of equal size that are not nested
            a = h("t2a", c) % 4
            b = (a + 1 + h("t2b", c) % 3) % 4
            return {self.lab(a): self.num(h("m", a, c) % 1000 + 1), self.lab(b): self.num(h("m", b, c) % 1000 + 1)}
        if k == "coarse":     # few distinct output values: predictions coincide with each other and with their own mean now and then
            return {"output": self.num(h("m", c) % 3)}
        if k == "ignore":     # reads only the first feature
            return {"output": self.num(h("m", _cv(x[self.names[0]])) % 1000)}
        if k == "constant":
            return {"output": self.num(3)}
        if k == "multi":
            return {self.lab(l): self.num(h("m", l, c) % 1000 + 1) for l in range(3)}
        if k == "grow":       # label set depends on the input: labels appear over time
            m = 1 + h("k", c) % 4
            return {self.lab(l): self.num(h("m", l, c) % 1000 + 1) for l in range(m)}
        if k == "linear":
            tot = 0
            for j, n in enumerate(self.names):
                v = x[n]
                if not hasattr(v, "__float__") or isinstance(v, str):
                    v = h("p", repr(v)) % 97
                tot = tot + (j + 1) * v
            return {"output": Q(tot) if self.exact else float(tot)}
        if k == "antisym":        # two labels whose values always cancel: the normalised marginal prediction has a zero sum
            v = self.num(h("m", c) % 1000 + 1)
            return {self.lab(0): v, self.lab(1): -v}
        if k == "phase":          # uninformative (constant) for inputs from the first ~40 observations, informative afterwards:
            # a model that "becomes informative" later in the stream, expressed as a pure function of the (time-coded) input
            vals = [v for v in x.values() if isinstance(v, (int, float)) and not isinstance(v, bool)]
            if not vals or max(vals) < 41000:
                return {"output": self.num(3)}
            return {"output": self.num(h("m", c) % 1000)}
        if k == "array1":         # user model returning NumPy arrays of shape (1,) as dict values (e.g. {'output': est.predict(X)})
            import numpy as np
            return {"output": np.array([(h("m", c) % 1000) / 8.0])}
        if k == "positional":     # reads the dict by POSITION (like a wrapper without feature_names): key order matters
            tot = 0
            for j, v in enumerate(x.values()):
                if not hasattr(v, "__float__") or isinstance(v, str) or getattr(v, "ndim", 0):
                    v = h("p", repr(v)) % 97          # non-numeric values (strings, tuples, lists, bytes, None: legal for dict-based models) enter through a hash
                tot = tot + (j + 1) * (j + 2) * v
            return {"output": Q(tot) if self.exact else float(tot)}
        raise ValueError(k)

    def __call__(self, x):
        if not isinstance(x, dict):
            if self.clock is not None:
                self.clock.tick("model")
                self.clock.log.append(("model_batch", [dict(xi) for xi in x]))
            return [self.one(xi) for xi in x]
        if self.clock is not None:
            self.clock.tick("model")
            self.clock.log.append(("model", dict(x)))
        if getattr(self, "reuse_out", False):
            # a model that keeps ONE output dict and overwrites it on every call (legal as long as each prediction is consumed
            # before the next model call: one inner sample per imputation)
            buf = self.__dict__.setdefault("_buf", {})
            out = self.one(x)
            buf.clear()
            buf.update(out)
            return buf
        if self.memo is not None and self.kind != "positional":
            key = canon(x)
            if key not in self.memo:
                self.memo[key] = self.one(x)
            return self.memo[key]          # a library that writes into this dict corrupts the model's later answers
        return self.one(x)


class Losses:
    """Deterministic pure loss functions; call-convention agnostic unless strict_positional."""

    def __init__(self, kind, exact=True, clock=None, out_type="plain"):
        self.kind, self.exact, self.clock, self.out_type = kind, exact, clock, out_type
        self.max_abs = 0.0

    def one(self, y, p):
        r = self._one(y, p)
        if self.exact or isinstance(r, bool):
            return r
        if self.out_type == "u8-loss":         # a loss reported as a narrow unsigned NumPy integer (e.g. absolute error of byte data)
            import numpy as np
            return np.uint8(min(255, int(abs(float(r))) % 256))
        if self.out_type == "arr-loss":        # ... or as a 0-d NumPy array (np.asarray(value))
            import numpy as np
            return np.asarray(float(r))
        return r

    def _one(self, y, p):
        if self.exact:      # exact mode: float zeros handed in by the library (zero-sum normalisation) are exact rationals too
            p = {k: (Q(v) if isinstance(v, float) else v) for k, v in p.items()}
        if self.kind == "hash":
            v = h("l", _cv(y) if not isinstance(y, str) else y, canon(p)) % 2001 - 1000
            return Q(v, 13) if self.exact else v / 16.0
        if self.kind == "zero":
            return Q(0) if self.exact else 0.0
        if self.kind == "sq":
            tot = 0
            for l, v in p.items():
                tot = tot + (y - v) * (y - v)
            return tot
        if self.kind == "zero-one":      # a 0-1 loss returning Python bools
            return bool(h("l01", _cv(y) if not isinstance(y, str) else y, canon(p)) % 2)
        if self.kind == "sqf":    # squared error returned as a plain float whatever the prediction values are
            import numpy as np
            tot = 0.0
            for l, v in p.items():
                tot += float(np.sum((y - np.asarray(v, dtype=float)) ** 2))
            return tot
        if self.kind == "abs":
            tot = 0
            for l, v in p.items():
                tot = tot + abs(y - v)
            return tot
        raise ValueError(self.kind)

    def __call__(self, *a, **kw):
        vals = list(a) + list(kw.values())
        if self.clock is not None:
            self.clock.tick("loss")
            self.clock.log.append(("loss", vals[0], dict(vals[1])))
        r = self.one(vals[0], vals[1])
        a = abs(float(r))
        if a > self.max_abs:
            self.max_abs = a
        return r


class UniqueStream:
    """Observations whose every feature value is globally unique, so a model input identifies the
    stored observation each value came from.  value = base + 1000*t + j  (exactly representable)."""

    def __init__(self, names, seed=0, exact=False, ykind="int", extras=(), shuffle_keys=False, str_values=False):
        self.names, self.rnd, self.t, self.exact, self.ykind = list(names) + list(extras), random.Random(seed), 0, exact, ykind
        self.shuffle_keys = shuffle_keys
        self.str_values = str_values      # features 1, 5, 9, ... are categorical with STRING values (one of them the empty string)
        self.origin = {}
        # every even-indexed feature carries ONE falsy value (0, 0.0 or False) at some early time: still unique per
        # feature, and legal input ("unusual input" class: zero / boolean feature values)
        self.falsy_at = {j: (self.rnd.randrange(0, 6), self.rnd.choice([0, 0.0, False]))
                         for j in range(len(self.names)) if j % 2 == 0}

    def next(self):
        t = self.t
        self.t += 1
        x = {}
        for j, n in enumerate(self.names):
            v = 1000 * (t + 1) + j
            if self.str_values and j % 4 == 1:
                v = f"cat{t}_{j}" if t != 3 else ""
            if j in self.falsy_at and self.falsy_at[j][0] == t:
                v = self.falsy_at[j][1]
            x[n] = v
            self.origin[(repr(n), v)] = t
        y = self.rnd.randrange(-5, 6)
        if self.ykind == "str":
            y = ["no", "yes", "maybe", ""][y % 4]
        elif self.ykind == "bool":
            y = bool(y % 2)
        if self.shuffle_keys:
            ks = list(x)
            self.rnd.shuffle(ks)
            x = {k: x[k] for k in ks}
        return x, y


class RiverLoss:
    """A river regression metric handed to an explainer as its loss (the library converts it); `one(y, p)` is the twin: a fresh
    metric after that single pair."""

    def __init__(self, kind):
        self.kind, self.max_abs, self.exact = kind, 0.0, False

    def fresh(self):
        from river import metrics
        return getattr(metrics, self.kind)()

    def one(self, y, p):
        m = self.fresh()
        m.update(y_true=y, y_pred=p.get("output", 0))
        r = m.get()
        self.max_abs = max(self.max_abs, abs(float(r)))
        return r

    def as_argument(self):
        return self.fresh()
