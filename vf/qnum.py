"""Exact-number sanitizer (DESIGN 2.1): a rational that absorbs ints / floats / NumPy scalars
exactly and never decays to float, so the shipped arithmetic can be checked with ==."""
from fractions import Fraction


def tofrac(o):
    if isinstance(o, Q):
        return o.f
    if isinstance(o, bool):
        return Fraction(int(o))
    if isinstance(o, (int, Fraction)):
        return Fraction(o)
    if isinstance(o, float):
        return Fraction(o)
    try:
        import numpy as np
        if isinstance(o, np.integer):
            return Fraction(int(o))
        if isinstance(o, np.floating):
            return Fraction(float(o))
        if isinstance(o, np.bool_):
            return Fraction(int(o))
        if isinstance(o, np.ndarray) and o.ndim == 0:
            return tofrac(o.item())
    except ImportError:  # pragma: no cover
        pass
    return None


class Q:
    __slots__ = ("f",)
    __array_priority__ = 1000

    def __init__(self, a=0, b=1):
        self.f = Fraction(a, b) if b != 1 else tofrac(a)

    def _bin(self, o, op, rev=False):
        g = tofrac(o)
        if g is None:
            return NotImplemented
        return Q(op(g, self.f) if rev else op(self.f, g))

    def __add__(s, o): return s._bin(o, lambda a, b: a + b)
    def __radd__(s, o): return s._bin(o, lambda a, b: a + b, True)
    def __sub__(s, o): return s._bin(o, lambda a, b: a - b)
    def __rsub__(s, o): return s._bin(o, lambda a, b: a - b, True)
    def __mul__(s, o): return s._bin(o, lambda a, b: a * b)
    def __rmul__(s, o): return s._bin(o, lambda a, b: a * b, True)
    def __truediv__(s, o): return s._bin(o, lambda a, b: a / b)
    def __rtruediv__(s, o): return s._bin(o, lambda a, b: a / b, True)
    def __neg__(s): return Q(-s.f)
    def __pos__(s): return s
    def __abs__(s): return Q(abs(s.f))

    def __pow__(s, e):
        if isinstance(e, int) and not isinstance(e, bool):
            return Q(s.f ** e)
        return float(s.f) ** e

    def __float__(s): return float(s.f)
    def rint(s): return Q(round(s.f))          # numpy's round() on object scalars (Tracker.__repr__)
    def __round__(s, n=None): return Q(round(s.f, n)) if n is not None else round(s.f)

    def __eq__(s, o):
        g = tofrac(o)
        return g is not None and s.f == g

    def __ne__(s, o): return not s.__eq__(o)
    def __lt__(s, o): return s.f < tofrac(o)
    def __le__(s, o): return s.f <= tofrac(o)
    def __gt__(s, o): return s.f > tofrac(o)
    def __ge__(s, o): return s.f >= tofrac(o)
    def __hash__(s): return hash(s.f)
    def __repr__(s): return f"Q({s.f})"
    def __bool__(s): return s.f != 0
    def __deepcopy__(s, memo): return s
    def __copy__(s): return s
