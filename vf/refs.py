"""Reference models written from the property statements only (DESIGN 2.3).  Nothing here imports ixai."""
from .qnum import Q


class RefStat:
    """Closed-form running statistic: uniform mean (static) or sum alpha(1-alpha)^(n-i) v_i (dynamic)."""

    def __init__(self, dyn, alpha, fast=False):
        self.dyn, self.alpha, self.vals = dyn, alpha, []
        # fast: the same closed forms evaluated by Horner's scheme / a running sum (O(1) per value) - for streams of
        # thousands of calls, where re-summing the whole history at every call would be quadratic
        self.fast, self._acc, self._n = fast, 0, 0

    def add(self, v):
        if self.fast:
            self._acc = ((1 - self.alpha) * self._acc + self.alpha * v) if self.dyn else self._acc + v
            self._n += 1
            return
        self.vals.append(v)

    def get(self):
        if self.fast:
            return 0 if self._n == 0 else (self._acc if self.dyn else self._acc / self._n)
        n = len(self.vals)
        if n == 0:
            return 0
        if self.dyn:
            a = self.alpha
            tot = 0
            for i, v in enumerate(self.vals):
                tot = tot + a * (1 - a) ** (n - 1 - i) * v
            return tot
        tot = 0
        for v in self.vals:
            tot = tot + v
        return tot / n


class RefMulti:
    """Per-key statistic since first appearance, zero-filled when omitted."""

    def __init__(self, dyn, alpha, fast=False):
        self.dyn, self.alpha, self.keys, self.n, self.fast = dyn, alpha, {}, 0, fast

    def add(self, d):
        for k in d:
            if k not in self.keys:
                self.keys[k] = RefStat(self.dyn, self.alpha, getattr(self, 'fast', False))
        for k, rs in self.keys.items():
            rs.add(d[k] if k in d else 0)
        self.n += 1

    def get(self):
        return {k: rs.get() for k, rs in self.keys.items()}

    def normalized(self):
        g = self.get()
        if len(g) <= 1:
            return g
        s = 0
        for v in g.values():
            s = s + v
        if s == 0:
            return {k: 0.0 for k in g}
        return {k: v / s for k, v in g.items()}


def mean_out(outs):
    """Mean of model outputs per label; missing label counts as 0."""
    labels = []
    for o in outs:
        for l in o:
            if l not in labels:
                labels.append(l)
    res = {}
    for l in labels:
        tot = 0
        for o in outs:
            tot = tot + (o[l] if l in o else 0)
        res[l] = tot / len(outs)
    return res


def _py(v):
    """NumPy scalars / 0-d arrays as Python numbers (the references never compute in a narrow NumPy type)."""
    try:
        import numpy as np
        if isinstance(v, np.generic) or (isinstance(v, np.ndarray) and v.ndim == 0):
            return v.item()
    except ImportError:
        pass
    return v


def mean(vals):
    tot = 0
    for v in vals:
        tot = tot + _py(v)
    return tot / len(vals)


def pvariance(vals):
    m = mean(vals)
    tot = 0
    for v in vals:
        tot = tot + (v - m) * (v - m)
    return tot / len(vals)


def close(a, b, tol):
    """Numeric equality: exact for exact numbers, absolute tolerance otherwise."""
    if isinstance(a, Q) or isinstance(b, Q):
        return a == b
    try:
        fa, fb = float(a), float(b)
    except Exception:
        return a == b
    if fa != fa or fb != fb:
        return False
    return abs(fa - fb) <= tol


def dict_close(a, b, tol):
    if set(a.keys()) != set(b.keys()):
        return False
    return all(close(a[k], b[k], tol) for k in a)
