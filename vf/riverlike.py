"""Realistic end-to-end workloads for the explainer checks (C01 / C02 / C03): a real river model that keeps LEARNING between
explanations, river's synthetic streams (non-unique, partly categorical values), the library's own RiverWrapper and
river-metric conversion, the storages and imputers of the repository's examples.  The recording boundary is the same as in
`harness.Scenario` (model function, imputer, storage), so the same references judge the run - the pristine twin of the model
is the live model itself, queried after the call and before the next `learn_one` (river predictions are pure; the check
verifies that on every logged result).

The module is deliberately called `riverlike`: the library auto-wraps bound methods whose owner's type name contains "river"
(`validate_model_function`), and `RecordedEstimator` must be recognised exactly like a river estimator is."""
import random

import numpy as np

from .probes import Clock
from .harness import Scenario, ImputerProxy, make_storage


class RecordedEstimator:
    """A river estimator seen through a recording boundary: predict_one / predict_proba_one log the instance they get."""

    def __init__(self, est, clock):
        self.est, self.clock = est, clock

    def _rec(self, x):
        self.clock.tick("model")
        self.clock.log.append(("model", dict(x)))

    def predict_one(self, x):
        self._rec(x)
        return self.est.predict_one(x)

    def predict_proba_one(self, x):
        self._rec(x)
        return self.est.predict_proba_one(x)


class ModelTwin:
    """`one(x)`: the wrapped prediction of the live estimator, without logging (reference side)."""

    kind = "real"

    def __init__(self, est, method):
        self.est, self.method = est, method

    def one(self, x):
        r = getattr(self.est, self.method)(dict(x))
        if isinstance(r, dict):
            return dict(r)
        return {"output": float(r)}


class LossTwin:
    """Reference loss: a fresh clone of the river metric per evaluation (metric kinds), or the plain function."""

    def __init__(self, kind):
        self.kind, self.max_abs = kind, 0.0

    def fresh(self):
        from river import metrics
        return {"CrossEntropy": metrics.CrossEntropy, "MAE": metrics.MAE, "MSE": metrics.MSE, "RMSE": metrics.RMSE}[self.kind]()

    def one(self, y, p):
        if self.kind == "brier":
            r = sum((float(v) - (1.0 if l == y else 0.0)) ** 2 for l, v in p.items())
        elif self.kind == "abs-output":
            r = abs(float(y) - float(p.get("output", 0)))
        elif self.kind == "CrossEntropy":
            m = self.fresh()
            m.update(y_true=y, y_pred=dict(p))
            r = m.get()
        else:
            m = self.fresh()
            m.update(y_true=y, y_pred=p.get("output", 0))
            r = m.get()
        self.max_abs = max(self.max_abs, abs(float(r)))
        return r

    def as_argument(self):
        """What the user hands to the explainer: the river metric object itself, or a plain function."""
        if self.kind in ("brier", "abs-output"):
            twin = LossTwin(self.kind)
            return lambda y_true, y_prediction: twin.one(y_true, y_prediction)
        return self.fresh()


CLASSIFIERS = ["HT", "NB", "LR", "ARF", "HT-label"]
REGRESSORS = ["LinReg", "HTR"]


def make_estimator(kind, seed):
    from river import tree, naive_bayes, linear_model, preprocessing, compose, forest
    if kind in ("HT", "HT-label"):
        return tree.HoeffdingTreeClassifier(grace_period=20)
    if kind == "NB":
        return naive_bayes.GaussianNB()
    if kind == "LR":
        return compose.Pipeline(preprocessing.StandardScaler(), linear_model.LogisticRegression())
    if kind == "ARF":
        return forest.ARFClassifier(n_models=3, seed=seed % 1000)
    if kind == "LinReg":
        return compose.Pipeline(preprocessing.StandardScaler(), linear_model.LinearRegression())
    if kind == "HTR":
        return tree.HoeffdingTreeRegressor(grace_period=20)
    raise ValueError(kind)


def gen_real_cfg(rnd, explainer, need_decode=False):
    est = rnd.choice(CLASSIFIERS + REGRESSORS)
    clf = est in CLASSIFIERS
    if est == "HT-label":
        loss = "abs-output"
    elif clf:
        loss = rnd.choice(["CrossEntropy", "CrossEntropy", "brier"])
    else:
        loss = rnd.choice(["MAE", "MSE", "RMSE", "abs-output"])
    size = rnd.choice([5, 20, 100])
    storage = rnd.choice([("geometric", size, None, False), ("uniform", size, False), ("interval", size, True),
                          ("geometric", size, 0.9, True), ("library-default",)])
    imputer = rnd.choice(["joint", "product", "library-default"])
    if need_decode:      # references read the imputed sets off the imputer calls (values repeat, so inputs alone do not tell)
        imputer = rnd.choice(["joint", "product"])
        if storage[0] == "library-default":
            storage = ("geometric", 100, None, False)
    return {"explainer": explainer, "exact": False, "real": True, "estimator": est, "model": "real:" + est,
            "dataset": "Agrawal" if clf else "Friedman", "loss": loss,
            "dyn": rnd.random() < 0.6, "alpha": rnd.choice([0.001, 0.01, 0.05, 0.5]),
            "d": rnd.choice([2, 3, 4, 6, 9]), "n_inner": rnd.choice([1, 1, 2, 3]),
            "storage": storage, "imputer": imputer,
            "lbib": False, "steps": rnd.choice([15, 30, 60]), "vary_calls": rnd.random() < 0.4,
            "wrap": rnd.choice(["explicit", "auto"]),           # RiverWrapper(model.predict_...) vs. the bare bound method
            "pretrain": rnd.choice([5, 5, 40]), "keyword_call": rnd.random() < 0.3, "extras": 0, "warm_start": 0,
            "names": "dataset", "manual_updates": False}


class RealScenario(Scenario):
    def __init__(self, cfg, seed):
        from river.datasets import synth
        from ixai.explainer import IncrementalSage, IncrementalPFI
        from ixai.imputer import MarginalImputer
        from ixai.utils.wrappers import RiverWrapper
        self.cfg, self.seed = cfg, seed
        random.seed(seed)
        np.random.seed(seed % (2 ** 32))
        self.rnd = random.Random(seed ^ 0x5EED)
        self.clock = Clock()
        if cfg["dataset"] == "Agrawal":
            ds = synth.Agrawal(classification_function=seed % 10, seed=seed % 997)
        else:
            ds = synth.Friedman(seed=seed % 997)
        self.it = iter(ds)
        self.est = make_estimator(cfg["estimator"], seed)
        x0 = None
        for _ in range(cfg["pretrain"]):
            x0, y0 = next(self.it)
            self.est.learn_one(x0, y0)
        allnames = list(x0.keys())
        self.rnd.shuffle(allnames)
        self.names = allnames[:min(cfg["d"], len(allnames))]
        cfg["d"] = len(self.names)
        self.names0 = list(self.names)
        method = "predict_one" if cfg["estimator"] in ("HT-label",) + tuple(REGRESSORS) else "predict_proba_one"
        self.model = ModelTwin(self.est, method)
        self.pred_scale = 1.0 if method == "predict_proba_one" else 100.0
        rec = RecordedEstimator(self.est, self.clock)
        fn = getattr(rec, method)
        model_fn = RiverWrapper(fn) if cfg["wrap"] == "explicit" else fn
        self.loss = LossTwin(cfg["loss"])
        if cfg["storage"][0] == "library-default":
            self.storage = None
            cfg["imputer"] = "library-default"
        else:
            self.storage = make_storage(cfg["storage"], self.clock)
        if cfg["imputer"] in ("joint", "product"):
            self.real_imputer = MarginalImputer(model_fn, cfg["imputer"], self.storage)
            self.imputer = ImputerProxy(self.real_imputer, self.clock)
        else:
            self.real_imputer = self.imputer = None
        kw = dict(storage=self.storage, imputer=self.imputer, n_inner_samples=cfg["n_inner"], dynamic_setting=cfg["dyn"],
                  smoothing_alpha=cfg["alpha"])
        cls = IncrementalSage if cfg["explainer"] == "sage" else IncrementalPFI
        self.e = cls(model_fn, self.loss.as_argument(), self.names, **kw)
        self.t = 0
        self.n_inner_now = cfg["n_inner"]
        self.pending = None
        self.clock.reset()

    def next_obs(self):
        return next(self.it)

    def step(self, x=None, y=None, **kw):
        if self.pending is not None:          # the model learns the previous observation AFTER it was explained and judged
            self.est.learn_one(*self.pending)
            self.pending = None
        if x is None:
            x, y = self.next_obs()
        ri = self.cfg.get("reassign_inner")
        if ri and self.t == ri[0]:
            self.e.n_inner_samples = ri[1]
            self.n_inner_now = ri[1]
        self.clock.reset()
        if self.cfg.get("keyword_call"):
            ret = self.e.explain_one(x_i=x, y_i=y, **kw)
        else:
            ret = self.e.explain_one(x, y, **kw)
        self.pending = (x, y)
        self.t += 1
        return x, y, ret, list(self.clock.log)
