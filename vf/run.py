"""Entry point: python -m vf.run <Cnn> <quick|thorough> [--replay file] [--shard i/n --partial path]"""
import importlib
import json
import os
import subprocess
import sys
import tempfile
import time
import traceback

from . import core


def main(argv):
    if len(argv) < 1:
        print("usage: check <Cnn> <quick|thorough> [--replay file]")
        return 2
    pid = argv[0].upper()
    tier = argv[1] if len(argv) > 1 and not argv[1].startswith("--") else os.environ.get("VERIF_TIER", "quick")
    seed = int(os.environ.get("VERIF_SEED", "0") or 0)
    shard, partial, replay = (0, 1), None, None
    i = 1
    while i < len(argv):
        if argv[i] == "--shard":
            a, b = argv[i + 1].split("/")
            shard = (int(a), int(b))
            i += 1
        elif argv[i] == "--partial":
            partial = argv[i + 1]
            i += 1
        elif argv[i] == "--replay":
            replay = argv[i + 1]
            i += 1
        i += 1
    if replay:
        with open(replay) as fh:
            data = json.load(fh)
        tier, seed = data.get("tier", tier), data.get("seed", seed)
        print(f"replaying {pid}: tier={tier} seed={seed} mechanism={data.get('mechanism')}")
        print("recorded case:", json.dumps(data.get("replay"))[:3000])
    mod = importlib.import_module(f"vf.checks.{pid.lower()}")
    nshards = getattr(mod, "SHARDS", {}).get(tier, 1)
    if os.environ.get("VF_SHARDS"):
        nshards = min(nshards, int(os.environ["VF_SHARDS"]))
    run = core.Run(pid, tier, seed, shard)
    if partial is None and nshards > 1:
        return parent(run, pid, tier, nshards, mod)
    # ---- worker / single process
    core.import_ixai()
    run.cov.start()
    try:
        mod.main(run)
    except Exception:
        run.cov.stop()
        traceback.print_exc()
        run.unreachable("check crashed: " + traceback.format_exc()[-800:])
    run.cov.stop()
    if partial:
        with open(partial, "w") as fh:
            json.dump(run.to_partial(), fh)
        return 0
    return run.finish()


def parent(run, pid, tier, nshards, mod):
    os.makedirs(os.path.join(core.VERIF, "replays"), exist_ok=True)
    tmpdir = tempfile.mkdtemp(prefix=f"vf-{pid}-", dir=os.path.join(core.VERIF, "replays"))
    limit = getattr(mod, "TIMEOUT", {}).get(tier, 3600)
    procs = []
    for i in range(nshards):
        path = os.path.join(tmpdir, f"p{i}.json")
        log = open(os.path.join(tmpdir, f"p{i}.log"), "w")
        procs.append((i, path, log, subprocess.Popen(
            [sys.executable, "-W", "ignore", "-m", "vf.run", pid, tier, "--shard", f"{i}/{nshards}",
             "--partial", path], stdout=log, stderr=subprocess.STDOUT, cwd=core.VERIF)))
    deadline = time.time() + limit
    run.shard = (0, nshards)
    for i, path, log, p in procs:
        try:
            p.wait(timeout=max(1, deadline - time.time()))
        except subprocess.TimeoutExpired:
            p.kill()
            run.unreachable(f"shard {i} hit the wall-clock watchdog ({limit}s)")
        log.close()
        if os.path.exists(path):
            with open(path) as fh:
                run.merge(json.load(fh))
        else:
            tail = open(os.path.join(tmpdir, f"p{i}.log")).read()[-1500:]
            run.unreachable(f"shard {i} produced no result: {tail}")
    for i, path, log, p in procs:
        for f in (path, os.path.join(tmpdir, f"p{i}.log")):
            try:
                os.remove(f)
            except OSError:
                pass
    try:
        os.rmdir(tmpdir)
    except OSError:
        pass
    return run.finish()


if __name__ == "__main__":
    sys.exit(main(sys.argv[1:]))
