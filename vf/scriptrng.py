"""Scripted global `random` + stateless DFS over random outcomes (DESIGN 2.4)."""
import contextlib
import random

PALETTE_FULL = [0.0, 1e-12, 0.25, 0.5, 0.75, 1 - 2 ** -53]
PALETTE_SMALL = [0.0, 0.25, 0.75, 1 - 2 ** -53]


class Scripted(random.Random):
    """random.Random whose three primitives read from a choice script.  All public functions
    (randrange, randint, choice, choices, shuffle, sample, uniform, ...) derive from them."""

    def __init__(self, script, palette):
        super().__init__(0)
        self.script = list(script)
        self.pos = 0
        self.arity = []
        self.pal = list(palette)

    def _next(self, arity):
        if self.pos < len(self.script):
            c = self.script[self.pos]
        else:
            c = 0
            self.script.append(0)
        self.arity.append(arity)
        self.pos += 1
        return c if c < arity else arity - 1

    def random(self):
        return self.pal[self._next(len(self.pal))]

    def _randbelow(self, n):
        return self._next(n)

    def getrandbits(self, k):
        return self._next(2 ** k)


@contextlib.contextmanager
def installed(rng):
    """Swap every module-level bound method of `random` for the given instance's."""
    saved = {}
    for name in random.__all__:
        obj = getattr(random, name, None)
        if getattr(obj, "__self__", None) is random._inst:
            saved[name] = obj
            setattr(random, name, getattr(rng, name))
    try:
        yield rng
    finally:
        for k, v in saved.items():
            setattr(random, k, v)


def dfs(scenario, palette=PALETTE_SMALL, max_paths=None, max_seconds=40.0):
    """Enumerate every outcome of the scripted draws consumed by scenario().
    scenario(rng) is executed once per path with the global generator replaced.
    Yields (script, result).  Stops after max_paths (returns exhausted flag via StopIteration)."""
    import time as _time
    stack = [[]]
    paths = 0
    t_end = _time.time() + max_seconds
    while stack:
        if paths % 256 == 255 and _time.time() > t_end:      # wall-clock cap of one enumeration (draw trees can be huge or infinite)
            yield None, "TRUNCATED", None
            return
        script = stack.pop()
        rng = Scripted(script, palette)
        with installed(rng):
            try:
                result = scenario(rng)
            except RecursionError:
                yield None, "TRUNCATED", None      # an implementation that retries by calling itself, steered into its retry branch for ever
                return
        paths += 1
        yield list(rng.script), result, rng
        base = len(script)
        for pos in range(len(rng.script) - 1, base - 1, -1):
            for alt in range(1, rng.arity[pos]):
                stack.append(rng.script[:pos] + [alt])
        if max_paths is not None and paths >= max_paths and stack:
            yield None, "TRUNCATED", None
            return
