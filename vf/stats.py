"""Statistical oracles with an explicit false-alarm budget (DESIGN 2.5)."""
import math

from scipy.stats import binom

EPS = 1e-9


class CellTests:
    """A family of exact two-sided binomial tests sharing one false-alarm budget.
    The number of tests must be declared before looking at the data (Bonferroni)."""

    def __init__(self, n_tests, eps=EPS):
        self.n_tests = max(1, int(n_tests))
        self.alpha = eps / self.n_tests
        self.done = 0
        self.min_p = 1.0
        self.worst = None
        self.max_mdd = 0.0

    def test(self, k, n, p, label=None):
        """Return None if consistent, else a description.  k successes in n trials, law Binomial(n,p)."""
        self.done += 1
        if self.done > self.n_tests:
            raise RuntimeError("more cell tests than declared")
        p = float(p)
        if n == 0:
            return None
        if p <= 0.0:
            pv = 1.0 if k == 0 else 0.0
        elif p >= 1.0:
            pv = 1.0 if k == n else 0.0
        else:
            pv = min(1.0, 2 * min(binom.cdf(k, n, p), binom.sf(k - 1, n, p)))
            # minimal detectable deviation (normal approximation, for the evidence only)
            z = math.sqrt(2 * math.log(2 / self.alpha))
            self.max_mdd = max(self.max_mdd, 2 * z * math.sqrt(p * (1 - p) / n))
        if pv < self.min_p:
            self.min_p, self.worst = pv, (label, k, n, p)
        if pv < self.alpha:
            return f"cell {label}: {k}/{n} observed, probability {p:.6g} expected, p-value {pv:.3g} < {self.alpha:.3g}"
        return None


def hoeffding_radius(n, width, alpha):
    """|mean - E| <= radius with probability >= 1 - alpha for n iid values in a range of given width."""
    return width * math.sqrt(math.log(2 / alpha) / (2 * n))
